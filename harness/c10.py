"""C10 - interpreter sessions keep definitions and survive failed calls unchanged.

Spec: spec/SessionOps.tla (values, module files, what a require form denotes),
spec/Session.tla (interpreters, module loader as a sub-step machine, command
alphabet), cfgs Session_one / Session_two / Session_wide / Session_pinned,
Session_env1 / Session_env2 / Session_pinnedenv, Session_dirs / Session_nest /
Session_fails / Session_pinnedhost / Session_pinnednest (round 3).

Binding A (replay along the state graph): TLC explores Session.tla and prints
every command-level transition (EDGE: idle state, command, predicted outcome,
idle state) and for every idle state the predicted contents of every session
scope (STATE).  The harness materialises the spec's module files on disk and
walks the graph on real Interpreter objects: quick = a spanning tree (shortest
path to every state) plus every other edge once; thorough = every history up
to length 5 and random histories up to length 30.  The walk forks the process
at every branch so that each edge is executed exactly once per tree node.

After every command the harness compares with the spec
  * the outcome of the interpret call (value / error class and kind),
  * the names visible in each interpreter's session scope and their values
    (earlier definitions stay visible, nothing of a failed remainder appears,
    the other interpreter is untouched),
and, implementation against implementation, that a failing command repeated at
once raises the same error.  modulestack / module cache / load counters are
projected too, as drift diagnostics only.

Round 2: commands that pass a caller environment to interpret (a fresh one,
one the caller keeps and uses again - with every interpreter -, a child of the
session); the cfg Session_pinnedenv (DetachCallerEnv = FALSE, the pinned
interpret) must give TLC a counterexample.  When the environment chain of an
interpreter has become cyclic the harness records what a read of an unknown
name and ls() do (both end, by the host's recursion limit) and abandons the
branch: require / interpret would walk the cycle for ever.

Round 3: three more graphs.  Session_dirs: two interpreters whose module paths
name DIFFERENT directories (same module names, other contents), the second
interpreter constructed by a command of the history (`new`), after the first
has been used.  Session_nest: caller environments that have a parent of their
own (outer <- inner <- leaf, kept by the caller, handed to both interpreters).
Session_fails: defining statements that fail themselves (def / assignment /
destructuring def / def class with a failing initialiser) and module loads that
fail with something that is not an error of the language (a file that is not
UTF-8, a directory in place of the file, a top level that exhausts the host's
stack), alone and nested in a sound module; Session_pinnedhost (the stack is
unwound for the language's error classes only) must give TLC a counterexample.
For such a load the spec predicts the outcome class "fail": any failure is
accepted (which exception it is, is C13's concern: drift), what is compared is
that the repeat fails in the same way and that nothing is left behind.  The
diagnostics that read private attributes of the implementation (modulestack,
modules, map, parent) are guarded: when one is not there the diagnostic is
dropped (drift diag:unavailable), the verdict does not depend on them.

Round 5: two more graphs and a deviation.  Session_world: the WORLD changes
between two commands - the host creates / removes a module file, saves another
version of a file that was never loaded successfully (fails at its top level ->
not well-formed -> sound), a program appends a directory to the module path of
its own interpreter.  A failed require must leave nothing that outlives the
call: every history <= 3 is walked (`require late ; <late.ckl appears> ; require
late`).  The processes of a walk share the directories on disk, so the
interpreters of this graph name their module directory relative to the working
directory and a process moves into a private copy before it changes anything
(Sessions.world_op).  Session_pinnedworld (a loader that remembers the names it
did not find) must give TLC a counterexample of MissingOnlyIfAbsent.
Session_base: interpreters that differ BELOW the session - i1 is not in secure
mode, programs reassign the base-level function is_list - and the bundled
modules List and IO, whose behaviour depends on the base environment their
instance hangs under (List->first asks is_list; IO->read_file exists outside
secure mode only); the doc string of a definition of i1 (`"doc" def dn = NULL`)
must not show in i2 (`info(NULL)`).

This module also hosts the code shared with C11 (harness/c11.py).
"""
import gc
import json
import multiprocessing
import os
import random
import re
import shutil
import signal
import sys
import tempfile
import time

from .common import import_ckl, MachineryError
from .tla import run_tlc

import_ckl()
from ckl.interpreter import Interpreter  # noqa: E402
from ckl.errors import CklRuntimeError, CklSyntaxError  # noqa: E402
from ckl import values as V  # noqa: E402
from ckl.functions import get_none_environment  # noqa: E402

NPROC = 16
CALL_TIMEOUT = 120      # seconds for one interpret call (they take microseconds)
MODEL_BUNDLED = {"sys", "stat"}     # SessionOps.Bundled: bundled modules the spec knows
MODEL_BUNDLED5 = {"io", "list"}     # round 5: followed where the configuration names them (Pre5 / require List)
ENV_OPS = {"envcall", "envfail", "envread"}
WORLD_OPS = {"appear", "vanish", "edit"}                          # Session.WorldOps: commands of the host
WORLD_LABEL = {"appear": "<the host creates late.ckl in the module directory>",
               "vanish": "<the host removes late.ckl from the module directory>",
               "edit": "<the host saves the next version of flaky.ckl>"}
FAILDEF_OPS = {"defbad", "assignbad", "destrbad", "classbad"}     # Session.FailDefOps
NOT_UTF8 = 'def undec_a = "Gr\xfc\xdfe";\n'.encode("latin-1")       # a module saved as Latin-1


class Abandon(Exception):
    """The interpreters of this branch cannot be used any further."""


def _alarm(signum, frame):
    raise TimeoutError("interpret call did not return")


def _interrupt(signum, frame):
    raise KeyboardInterrupt()


signal.signal(signal.SIGALRM, _alarm)
# The user's Ctrl-C for a module load that does not end: delivered after
# INTERRUPT_AFTER seconds of CPU time of this process (not wall time: whatever
# the load of the machine the call is then inside the endless loop).
signal.signal(signal.SIGVTALRM, _interrupt)
INTERRUPT_AFTER = 0.01
BUNDLED = None          # module ids preloaded in a fresh interpreter
# The variable of a `for` loop aborted by an error stays bound in the pinned
# code and the spec models that (DESIGN 5.3); the property does not demand it,
# so a tree that cleans it up only drifts.
# Likewise the members of `def class P`: the pinned NodeClass evaluates the
# member definitions in the enclosing scope, so P_m / P_get are bound there too.
SOFT_NAMES = {"i", "P_m", "P_get"}


# ------------------------------------------------------------------ sources
def bind_name(form, d):
    return {"plain": d, "as": "a_" + d, "imp": f"i_{d}_get", "unq": f"{d}_get"}[form]


def get_expr(form, d):
    return {"plain": f"{d}->{d}_get()", "as": f"a_{d}->{d}_get()",
            "imp": f"i_{d}_get()", "unq": f"{d}_get()"}[form]


def bump_expr(form, d):
    return {"plain": f"{d}->{d}_bump()", "as": f"a_{d}->{d}_bump()",
            "unq": f"{d}_bump()"}[form]


def require_src(d, form):
    if form == "plain":
        return f"require {d}"
    if form == "as":
        return f"require {d} as a_{d}"
    if form == "imp":
        return f"require {d} import [{d}_get as i_{d}_get, _{d}_st as i_{d}_st, {d}_top]"
    if form == "imp0":
        return f"require {d} import []"
    if form == "impd":
        return f"require {d} import [{d}_get as i_{d}_get, {d}_get as j_{d}_get, {d}_top]"
    if form != "unq":
        raise MachineryError("unknown require form " + form)
    return f"require {d} unqualified"


def module_source(m, rec):
    """The .ckl text of module file m from its abstract body (SessionOps.tla)."""
    if rec["syn"]:
        return "def x = (;\n"
    out = [f"append(loadlog, '{m}');",
           f"def _{m}_st = [0];",
           f"def {m}_bump() do _{m}_st[0] = _{m}_st[0] + 1; _{m}_st[0]; end;",
           f"def {m}_get() _{m}_st[0];",
           f"def {m}_sees() do secret catch all 0 end;",
           f"def {m}_top = do secret catch all 0 end;"]
    for st in rec["body"]:
        op = st["op"]
        if op == "def":
            out.append(f"def {st['n']} = 7;")
        elif op == "def8":
            out.append(f"def {st['n']} = 8;")
        elif op == "deep":
            out.append(f"def {m}_f(n) {m}_f(n + 1);")
            out.append(f"{m}_f(0);")
        elif op == "spin":
            out.append("while TRUE do 1; end;")     # the harness interrupts it (Sessions.run)
        elif op == "req":
            out.append(require_src(st["id"], st["form"]) + ";")
        elif op == "rdr":
            out.append(f"def {st['n']}() {get_expr(st['form'], st['id'])};")
        elif op == "poke":
            out.append(bump_expr(st["form"], st["id"]) + ";")
        elif op == "fail":
            out.append("error 'boom';")
        else:
            raise MachineryError("unknown statement " + op)
    return "\n".join(out) + "\n"


def materialise(fsdef, directory):
    """Write the module files of fsdef into directory.  -> the module
    directory of every interpreter: the path itself, or - when some
    interpreters have a directory of their own (fsdef["alt"]) - a dict
    {interpreter: path, "": path of the others}."""
    raw = fsdef.get("raw") or {}
    world = fsdef.get("world") if fsdef.get("worldmode") else None
    if world:
        # round 5: a directory that changes during the history.  Every process of
        # the walk works in a copy of its own from its first change on (copies
        # are made next to this directory), the interpreters name it relative to
        # the working directory of the process (Sessions.configure / world_op).
        directory = os.path.join(directory, "w0")
        os.mkdir(directory)
        os.mkdir(os.path.join(directory, ".world"))
        os.mkdir(os.path.join(directory, "extra"))
        with open(os.path.join(directory, ".world", "late.ckl"), "w") as f:
            f.write(module_source("late", world["late"]))
        for k, rec in enumerate(world["flaky"]):
            with open(os.path.join(directory, ".world", f"flaky.{k}.ckl"), "w") as f:
                f.write(module_source("flaky", rec))
        with open(os.path.join(directory, ".world", "flaky.ver"), "w") as f:
            f.write("0")
        for m, rec in (world["extra"] or {}).items():
            with open(os.path.join(directory, "extra", m + ".ckl"), "w") as f:
                f.write(module_source(m, rec))
    for m, rec in fsdef["fs"].items():
        path = os.path.join(directory, m + ".ckl")
        if raw.get(m) == "dir":
            os.mkdir(path)                      # a directory in place of the file
        elif raw.get(m) == "bytes":
            with open(path, "wb") as f:
                f.write(NOT_UTF8)               # cannot be decoded as UTF-8
        elif m in raw:
            raise MachineryError("unknown kind of unreadable file " + str(raw[m]))
        else:
            with open(path, "w") as f:
                f.write(module_source(m, rec))
    alt = fsdef.get("alt") or {}
    if not alt:
        return directory
    dirs = {"": directory}
    for i, files in sorted(alt.items()):
        dirs[i] = os.path.join(directory, "dir-of-" + i)
        os.mkdir(dirs[i])
        for m, rec in files.items():
            with open(os.path.join(dirs[i], m + ".ckl"), "w") as f:
                f.write(module_source(m, rec))
    return dirs


def cmd_source(c, binding=None):
    """Source text of one session command. binding = the spec's abstract value
    of c['n'] in the addressed scope (needed for bump)."""
    op, n, v = c["op"], c["n"], c["v"]
    if op == "def":
        return f"def {n} = {v}"
    if op == "assign":
        return f"{n} = {v}"
    if op == "read":
        return n
    if op == "deffn":
        return f"def {n}() x"
    if op == "call":
        return f"{n}()"
    if op == "failexpr":
        return f"def {n} = {v}; error 'boom'; def z = 1"
    if op == "syntax":
        return f"def {n} = 1; def w = ("
    if op == "loop":
        return f"for i in [1, 2, 3] do if i == 2 then error 'boom'; def {n} = i; end"
    if op == "bump":
        if binding and binding.startswith("sym:"):
            return f"{n}()"
        if binding and binding.startswith("mod:"):
            return f"{n}->{binding.split(':')[1]}_bump()"
        return f"{n}->{n}_bump()"
    if op == "require":
        return require_src(c["id"], c["form"])
    if op == "envcall":
        return f"def ev = 4; {n}"
    if op == "envfail":
        return "def ev = 4; error 'boom'"
    if op == "envread":
        return n
    if op == "defbad":
        return f"def {n} = 2 * nosuch"
    if op == "assignbad":
        return f"{n} = 2 * nosuch"
    if op == "destrbad":
        return f"def [{n}, w] = [5, nosuch]"
    if op == "defclass":
        return f"def class {n} do def {n}_m = {v}; def {n}_get(self) self->{n}_m end"
    if op == "classbad":
        return f"def class {n} do def {n}_m = 2 * nosuch; def {n}_get(self) 0 end"
    if op == "new":
        return "<the host constructs this interpreter> def secret = 1"
    # round 5
    if op in WORLD_OPS:
        return WORLD_LABEL[op]
    if op == "addpath":
        return "append(checkerlang_module_path, 'extra'); 1"
    if op == "lfirst":
        return f"{n}->first([1, 2, 3])"
    if op == "rebase":
        return f"{n} = fn(obj) FALSE"
    if op == "ioread":
        return f"{n}->read_file(checkerlang_module_path[0] + '/good.ckl')"
    if op == "docdef":
        return f'"doc of {n}" def {n} = NULL'
    if op == "infonull":
        return "info(NULL)"
    if op == "envreq":
        d = c["id"]
        tail = {"": "", "bump": f"; {d}->{d}_bump()", "probe": f"; {d}->{d}_top + {d}->{d}_sees()"}[n]
        return require_src(d, c["form"]) + tail
    raise MachineryError("unknown command " + op)


def half_defined(path):
    """(interpreter, name) pairs that a failed defining statement of the
    history would have defined.  A tree on which such a name becomes visible
    only drifts (state at the point of failure, DESIGN 5.3); that an EARLIER
    definition of the name stays what it was is compared as a value."""
    soft = set()
    for p in path:
        c = p[0]
        if c["op"] in FAILDEF_OPS:
            soft.add((c["i"], c["n"]))
            if c["op"] == "destrbad":
                soft.add((c["i"], "w"))
    return soft


ENVREQ_KIND = {0: "fresh", 1: "kept", 2: "deep"}


def cmd_label(c, binding=None):
    where = f"<in {c['id']} caller environment> " if c["op"] in ENV_OPS else ""
    if c["op"] == "envreq":
        where = f"<in {ENVREQ_KIND[c['v']]} caller environment holding secret> "
    return c["i"] + ": " + where + cmd_source(c, binding)


# ---------------------------------------------------------------- sessions
class Sessions:
    """The real interpreters of one history, configured as DESIGN 5.4 says:
    module path and the load log live in the base environment."""

    def __init__(self, interps, moddir=None, late=(), insec=(), world=False):
        """late: interpreters that a command of the history constructs (`new`);
        the others exist before the first command.  insec: the interpreters
        that are not in secure mode.  world: the module directory changes
        during the history (see materialise)."""
        self.interps = list(interps)
        self.insec = set(insec)
        self.world = bool(world)
        self.it = {}
        self.child = {}
        self.loadlog = {}
        self.moddir = None
        self.base_names = set()
        for i in interps:
            if i not in late:
                self.construct(i)
        # caller environments: one the caller keeps (and passes to every
        # interpreter), one child of each session, and a chain of the caller's
        # own: outer (holds the host's name ov) <- inner <- leaf
        self.kept = get_none_environment()
        self.outer = get_none_environment()
        self.outer.put("ov", V.ValueInt(5))
        self.inner = self.outer.newEnv()
        self.leaf = self.inner.newEnv()
        if moddir is not None:
            self.configure(moddir)

    def construct(self, i):
        global BUNDLED
        it = Interpreter(i not in self.insec, False)
        if BUNDLED is None:
            # (module ids preloaded in a fresh interpreter; used by diagnostics only)
            BUNDLED = set(getattr(it.base_environment, "modules", {}).keys())
        self.it[i] = it
        self.child[i] = it.environment.newEnv()
        return it

    def dir_of(self, i):
        if self.world:
            return "."              # the working directory of this process (see world_op)
        if isinstance(self.moddir, dict):
            return self.moddir.get(i, self.moddir[""])
        return self.moddir

    def setup(self, i):
        it = self.it[i]
        it.base_environment.put("checkerlang_module_path",
                                V.ValueList().addItem(V.ValueString(self.dir_of(i))))
        self.loadlog[i] = V.ValueList()
        it.base_environment.put("loadlog", self.loadlog[i])
        if not self.base_names:
            self.base_names = set(it.base_environment.getSymbols())
        return self.run(i, "def secret = 1")

    def configure(self, moddir):
        """Point the (so far unused) interpreters at their module directory:
        moddir is one path or {interpreter: path, "": path of the others}."""
        self.moddir = moddir
        if self.world:
            os.chdir(moddir)
        for i in self.it:
            got, _ = self.setup(i)
            if got != ("val", "int", "", 1):
                raise MachineryError(f"set-up of interpreter {i} failed: {got}")

    def create(self, i):
        """The command `new`: the host constructs interpreter i now, while the
        others are in use, and sets it up like them.  -> outcome of the set-up call"""
        if i in self.it:
            raise MachineryError("interpreter constructed twice: " + i)
        self.construct(i)
        return self.setup(i)

    def execute(self, c, src, interrupt=False):
        """One session command -> (abstract outcome, raw identity of an error).
        interrupt: the spec says the call does not end and the user interrupts it."""
        if c["op"] == "new":
            return self.create(c["i"])
        if c["op"] in WORLD_OPS:
            return self.world_op(c["op"])
        return self.run(c["i"], src, self.caller_env(c), interrupt)

    def world_op(self, op):
        """Round 5: the host changes the module directory between two calls.  The
        processes of a walk share the directories on disk, so the change is made
        in a fresh copy, which becomes the working directory of this process
        (the interpreters name their module directory relative to it); a
        directory that other processes may still read is never written to."""
        if not self.world:
            raise MachineryError("a command of the world outside a world graph")
        cur = os.getcwd()
        new = tempfile.mkdtemp(prefix="w-", dir=os.path.dirname(cur))
        shutil.copytree(cur, new, dirs_exist_ok=True)
        os.chdir(new)
        if op == "appear":
            if os.path.exists("late.ckl"):
                raise MachineryError("late.ckl is there already")
            shutil.copyfile(os.path.join(".world", "late.ckl"), "late.ckl")
        elif op == "vanish":
            os.remove("late.ckl")
        else:
            with open(os.path.join(".world", "flaky.ver")) as f:
                k = (int(f.read()) + 1) % 3
            shutil.copyfile(os.path.join(".world", f"flaky.{k}.ckl"), "flaky.ckl")
            with open(os.path.join(".world", "flaky.ver"), "w") as f:
                f.write(str(k))
        return ("val", "int", "", 0), None

    def caller_env(self, c):
        """The environment argument of interpret for command c (None: none)."""
        if c["op"] == "envreq":
            # round 5 (C11): an environment of the caller that holds the caller's own `secret`
            env = {0: get_none_environment(), 1: self.kept, 2: self.leaf}[c["v"]]
            (self.outer if c["v"] == 2 else env).put("secret", V.ValueInt(1))
            return env
        if c["op"] not in ENV_OPS:
            return None
        if c["id"] == "fresh":
            return get_none_environment()
        if c["id"] in ("nested", "deep", "outer"):
            return {"nested": self.inner, "deep": self.leaf, "outer": self.outer}[c["id"]]
        return self.kept if c["id"] == "kept" else self.child[c["i"]]

    def cyclic(self):
        """Does the environment chain of some interpreter never end?  (Reads the
        attribute `parent`; where there is no such attribute nothing is known
        and the time limit of a call is the only defence.)"""
        for it in self.it.values():
            e, hops = it.environment, 0
            while e is not None:
                e, hops = getattr(e, "parent", None), hops + 1
                if hops > 4 * len(self.interps) + 8:
                    return True
        return False

    def plain(self, text):
        """Error text without the names of the scratch directories."""
        dirs = self.moddir.values() if isinstance(self.moddir, dict) else [self.moddir]
        for d in sorted((x for x in dirs if x), key=len, reverse=True):
            text = text.replace(d, "<moddir>")
        return text

    def run(self, i, src, env=None, interrupt=False):
        """-> (abstract outcome tuple, raw identity of an error)"""
        it = self.it[i]
        try:
            signal.alarm(CALL_TIMEOUT)          # a call that never returns is an outcome too
            try:
                if interrupt:
                    signal.setitimer(signal.ITIMER_VIRTUAL, INTERRUPT_AFTER)
                r = it.interpret(src, "cmd") if env is None else it.interpret(src, "cmd", env)
            finally:
                signal.setitimer(signal.ITIMER_VIRTUAL, 0)
                signal.alarm(0)
        except KeyboardInterrupt:
            if not interrupt:
                raise
            return ("host", "KeyboardInterrupt", "", 0), ("KeyboardInterrupt", "", "")
        except CklRuntimeError as e:
            return classify_error(e), ("CklRuntimeError", repr(e.value), str(e.msg))
        except CklSyntaxError as e:
            return ("syntax", "", "", 0), ("CklSyntaxError", "", str(e.msg))
        except RecursionError:
            return ("host", "RecursionError", "", 0), ("RecursionError", "", "")
        except Exception as e:  # noqa: BLE001
            text = self.plain(str(e))[:80]
            return ("host", type(e).__name__, text, 0), (type(e).__name__, "", text)
        return classify_value(r), None


_ERR = [
    (re.compile(r"^Symbol '(\w+)' not defined$"), "undef"),
    (re.compile(r"^Variable (\w+) is not defined$"), "unassigned"),
    (re.compile(r"^Module (\w+) not found$"), "notfound"),
    (re.compile(r"^Found circular module dependency \((\w+)\)$"), "circular"),
    (re.compile(r"^Member (\w+) not found$"), "nomember"),                # round 5
    (re.compile(r"^'?argument is not a list \((\w+)\)'?$"), "notlist"),
]


def classify_error(e):
    msg = str(e.msg)
    if isinstance(e.value, V.ValueString) and e.value.value == "boom":
        return ("err", "boom", "", 0)
    for rx, kind in _ERR:
        m = rx.match(msg)
        if m:
            return ("err", kind, m.group(1), 0)
    return ("err", "other", msg[:80], 0)


def classify_value(r):
    if isinstance(r, V.ValueInt) and isinstance(r.value, int):
        return ("val", "int", "", r.value)
    if isinstance(r, V.ValueNull):
        return ("val", "null", "", 0)
    if isinstance(r, V.ValueFunc):
        return ("val", "fn", "", 0)
    if isinstance(r, V.ValueString) and isinstance(r.value, str):
        return ("val", "str", "", 1 if r.value else 0)       # round 5: a text, empty or not
    if isinstance(r, V.ValueObject) and getattr(r, "isModule", False):
        return ("val", "mod", "", 0)
    if isinstance(r, V.ValueObject):
        return ("val",) + obj_kind(r)[:1] + ("", obj_kind(r)[1])
    return ("val", type(r).__name__, "", 0)


def obj_kind(v):
    """An object made by `def class P do def P_m = <int>; def P_get(self) ... end`
    -> ("obj", m); any other object -> ("obj-other", 0)."""
    try:
        ms = [x for k, x in v.value.items() if k.endswith("_m")]
        gs = [x for k, x in v.value.items() if k.endswith("_get")]
        if (len(v.value) == 2 and len(ms) == 1 and len(gs) == 1 and isinstance(ms[0], V.ValueInt)
                and isinstance(ms[0].value, int) and isinstance(gs[0], V.ValueFunc)):
            return ("obj", ms[0].value)
    except Exception:  # noqa: BLE001
        pass
    return ("obj-other", 0)


def want_outcome(o):
    if o["cls"] == "syntax":
        return ("syntax", "", "", 0)
    return (o["cls"], o["kind"], o["arg"], o["v"])


def render_value(sess, i, expr, v, want_kind):
    """What the name/member reached by `expr` holds, observed on the real
    interpreter: (kind, int)."""
    if isinstance(v, V.ValueInt) and isinstance(v.value, int):
        return ("int", v.value)
    if isinstance(v, V.ValueFunc):
        if want_kind == "call":
            o, _ = sess.run(i, expr + "()")
            if o[0] == "val" and o[1] == "int":
                return ("call", o[3])
            return ("call-failed", 0, o)
        return ("fn", 0)
    if isinstance(v, V.ValueObject) and getattr(v, "isModule", False):
        return ("mod", 0)
    if isinstance(v, V.ValueObject):
        kind = obj_kind(v)
        if kind[0] == "obj":
            # the object is usable: its method reads its member
            o, _ = sess.run(i, f"{expr}->{expr}_get()")
            if o != ("val", "int", "", kind[1]):
                return ("obj-broken", 0, o)
        return kind
    if isinstance(v, V.ValueList):
        return ("list", 0)
    if isinstance(v, V.ValueNull):
        return ("null", 0)          # round 5
    return (type(v).__name__, 0)


def value_cat(name):
    """probe = what module code saw of the importer (C11's concern only)."""
    return "probe" if name.endswith(("_sees", "_top")) else "value"


def scope_map(env):
    """The private dict of an environment, when the implementation has one."""
    m = getattr(env, "map", None)
    return m if isinstance(m, dict) else None


def peek(it, smap, n):
    """The value bound to n in the session scope: from the scope map, or - when
    the implementation keeps its scopes differently - by evaluating the name."""
    if smap is not None and n in smap:
        return smap[n]
    return it.interpret(n, "obs")


def observe(sess, i, want, names_only=False, soft=()):
    """Compare the scope of interpreter i with the predicted observation
    `want` (STATE.obs[i]).  -> list of (category, detail).  soft: (i, name)
    pairs whose appearance only drifts (see half_defined)."""
    diffs = []
    if want == []:
        want = {}
    if i not in sess.it:
        # not constructed yet: it has no scope
        if want:
            raise MachineryError(f"the spec gives interpreter {i} a scope before it is constructed")
        return diffs
    it = sess.it[i]
    smap = scope_map(it.environment)
    api = set(smap.keys()) if smap is not None else None
    try:
        r = it.interpret("ls()", "obs")
        lang = set(x.value for x in r.value) - sess.base_names
    except Exception as e:  # noqa: BLE001
        diffs.append(("names", f"ls() failed: {type(e).__name__}"))
        lang = api if api is not None else set()
    if api is None:
        diffs.append(("diag:unavailable", "the session environment has no dict `map`: names are taken from "
                                          "ls() only, values by evaluating the name"))
        api = lang
    if lang != api:
        diffs.append(("ls-vs-api", f"ls() shows {sorted(lang ^ api)} differently from the scope map"))
    exp = set(want.keys())
    for n in sorted((lang ^ exp) & SOFT_NAMES):
        diffs.append(("drift:loopvar", f"{i}: {'loop variable' if n == 'i' else 'class member'} {n} "
                                       f"{'kept' if n in lang else 'not kept'} in the session scope after "
                                       f"the {'aborted loop' if n == 'i' else 'class definition'}, spec says "
                                       f"the opposite"))
    exp -= SOFT_NAMES
    # the verdict is on what the language shows (ls()); the scope map is the cross-check above
    for n in sorted(lang - exp - SOFT_NAMES):
        if (i, n) in soft:
            diffs.append(("drift:halfdef", f"{i}: name {n} is visible although the statement defining it failed"))
        else:
            diffs.append(("names", f"unexpected name {n} in the scope of {i}"))
    for n in sorted(exp - lang):
        diffs.append(("names", f"name {n} is missing from the scope of {i}"))
    if names_only:
        return diffs
    shown = {}          # module instance (spec) -> [(name, module object)]
    for n in sorted(exp & api):
        w = want[n]
        try:
            v = peek(it, smap, n)
        except Exception as e:  # noqa: BLE001
            diffs.append(("value", f"{i}: {n} cannot be read: {type(e).__name__}"))
            continue
        got = render_value(sess, i, n, v, w["v"]["k"])
        if got[:2] != (w["v"]["k"], w["v"]["r"]):
            diffs.append((value_cat(n), f"{i}: {n} is {got} but should be {(w['v']['k'], w['v']['r'])}"))
            continue
        if w["v"]["k"] == "mod":
            shown.setdefault(w.get("of", ""), []).append((n, v))
            if w.get("open"):
                continue            # a bundled module: its members are not modelled
            mem = w["mem"] if w["mem"] != [] else {}
            have = set(v.value.keys())
            for k in sorted(have - set(mem)):
                diffs.append(("members", f"{i}: module object {n} exposes unexpected member {k}"))
            for k in sorted(set(mem) - have):
                diffs.append(("members", f"{i}: module object {n} lacks member {k}"))
            for k in sorted(set(mem) & have):
                g = render_value(sess, i, f"{n}->{k}", v.value[k], mem[k]["k"])
                if g[:2] != (mem[k]["k"], mem[k]["r"]):
                    diffs.append((value_cat(k), f"{i}: {n}->{k} is {g} but should be {(mem[k]['k'], mem[k]['r'])}"))
    # all importers share the single instance: module objects of one module show the very same members
    for of, objs in sorted(shown.items()):
        n0, v0 = objs[0]
        for n1, v1 in objs[1:]:
            if set(v0.value.keys()) != set(v1.value.keys()):
                continue            # reported above as members
            other = sorted(k for k in v0.value if v0.value[k] is not v1.value[k])
            if other:
                diffs.append(("instance", f"{i}: module objects {n0} and {n1} of module {of} do not share "
                                          f"one instance: members {other[:3]} are different objects"))
    return diffs


def diagnostics(sess, i, key, loadcap):
    """modulestack / module cache / load counters against the spec state.
    Category loadonce: the top level of a module that is (or the spec says is)
    in the cache ran more than once - what C11 forbids; the rest is drift."""
    if i not in sess.it:
        return []
    it = sess.it[i]
    d = []
    base = it.base_environment
    # private attributes of the implementation: a diagnostic whose attribute is
    # not there (renamed, restructured) is dropped, never an error of the check
    stack, cache = getattr(base, "modulestack", None), getattr(base, "modules", None)
    logv = sess.loadlog[i]              # the list the harness itself put into the base environment
    lost = [n for n, x, t in (("modulestack", stack, list), ("modules", cache, dict)) if not isinstance(x, t)]
    if lost:
        d.append(("diag:unavailable", f"no {' / '.join(lost)} on the base environment: "
                                      f"that diagnostic is dropped"))
    if "e" in key and scope_map(sess.kept) is not None and ("ev" in sess.kept.map) != bool(key["e"]):
        d.append(("diag:callerenv", f"the caller's environment holds {sorted(sess.kept.map)}, spec ev={key['e']}"))
    if "ne" in key and scope_map(sess.inner) is not None and ("ev" in sess.inner.map) != bool(key["ne"]):
        d.append(("diag:callerenv", f"the caller's inner environment holds {sorted(sess.inner.map)}, "
                                    f"spec ev={key['ne']}"))
    if getattr(sess.kept, "parent", None) is not None or getattr(sess.outer, "parent", None) is not None:
        d.append(("diag:callerenv", "a root environment of the caller is still attached after the call"))
    if hasattr(sess.inner, "parent") and (sess.inner.parent is not sess.outer or sess.leaf.parent is not sess.inner):
        d.append(("diag:callerenv", "the caller's chain outer <- inner <- leaf was cut by the call"))
    wantm = key["m"][i] if key["m"][i] != [] else {}
    base = DiagView(stack if isinstance(stack, list) else list(key["k"][i]),
                    cache if isinstance(cache, dict) else {m: None for m in wantm}, logv)
    stack = list(base.modulestack)
    if stack != list(key["k"][i]):
        d.append(("diag:stack", f"{i}: modulestack {stack} but spec {key['k'][i]}"))
    # bundled modules the spec knows: one cache entry per file whatever the
    # spelling; an evaluation of the file = a distinct module environment
    inst = {}
    wantl0 = key["l"][i] if key["l"][i] != [] else {}
    modelled = MODEL_BUNDLED | (MODEL_BUNDLED5 & (set(wantm) | set(wantl0)))     # round 5
    for k, env in base.modules.items():
        if k.lower() in modelled:
            inst.setdefault(k.lower(), {})[id(env)] = k
    loaded = sorted((set(base.modules.keys()) - BUNDLED - set(sum((list(x.values()) for x in inst.values()), [])))
                    | set(inst))
    if loaded != sorted(wantm):
        d.append(("diag:cache", f"{i}: module cache {loaded} but spec {sorted(wantm)}"))
    log = [x.value for x in base.loadlog.value]
    wantl = key["l"][i] if key["l"][i] != [] else {}
    for m in sorted(inst):
        n = len(inst[m])
        if n > 1:
            d.append(("loadonce", f"{i}: the top level of bundled module {m} ran {n} times "
                                  f"(instances cached as {sorted(inst[m].values())})"))
        elif min(n, loadcap) != wantl.get(m, 0):
            d.append(("diag:loads", f"{i}: bundled module {m} has {n} instances, spec {wantl.get(m, 0)}"))
    for m in sorted((set(log) | set(wantl)) - modelled):
        n = log.count(m)
        if n > 1 and (m in wantm or m in loaded):
            d.append(("loadonce", f"{i}: the top level of module {m} ran {n} times"))
        elif min(n, loadcap) != wantl.get(m, 0):
            d.append(("diag:loads", f"{i}: top level of {m} ran {n} times, spec {wantl.get(m, 0)}"))
    return d


class DiagView:
    """What the diagnostics read of a base environment (checked to be there)."""

    def __init__(self, modulestack, modules, loadlog):
        self.modulestack, self.modules, self.loadlog = modulestack, modules, loadlog


# ------------------------------------------------------------------- graph
class Graph:
    def __init__(self):
        self.keys = {}        # canonical key text -> id
        self.key = []         # id -> parsed key
        self.obs = {}         # id -> obs
        self.out = {}         # id -> list of (cmd, outcome, post id)
        self.init = None
        self.fsdefs = []

    def kid(self, k):
        t = json.dumps(k, sort_keys=True, separators=(",", ":"))
        i = self.keys.get(t)
        if i is None:
            i = self.keys[t] = len(self.key)
            self.key.append(k)
            self.out[i] = []
        return i

    def load(self, res):
        seen = set()
        for s in res.records("STATE"):
            i = self.kid(s["key"])
            self.obs[i] = s["obs"]
        for e in res.records("EDGE"):
            p, q = self.kid(e["p"]), self.kid(e["q"])
            ck = json.dumps(e["c"], sort_keys=True)
            if (p, ck) in seen:
                continue
            seen.add((p, ck))
            self.out[p].append((e["c"], e["o"], q))
        for p in self.out:
            # (a call with a child of the session last: on a tree where it ruins the
            # interpreter the other commands of the state have then been seen)
            self.out[p].sort(key=lambda x: (x[0]["op"] in ENV_OPS and x[0]["id"] == "child",
                                            json.dumps(x[0], sort_keys=True)))
        self.fsdefs = res.records("FSDEF")
        # round 3: which files cannot be read, directories of single interpreters
        for extra in res.records("FSRAW")[:1]:
            for f in self.fsdefs:
                f["raw"] = extra["raw"] if extra["raw"] != [] else {}
                f["alt"] = extra["alt"] if extra["alt"] != [] else {}
                # round 5: the interpreters that are not in secure mode; the files the
                # commands of the world put in place (used when the graph has such commands)
                f["insec"] = sorted(extra["insec"]) if extra.get("insec") else []
                f["world"] = extra.get("world")
                f["worldmode"] = any(c["op"] in WORLD_OPS or c["op"] == "addpath"
                                     for outs in self.out.values() for (c, _, _) in outs)
        return self

    def dump(self, path):
        with open(path, "w") as f:
            json.dump({"key": self.key, "obs": {str(k): v for k, v in self.obs.items()},
                       "out": {str(k): v for k, v in self.out.items()}}, f)

    @staticmethod
    def undump(path):
        g = Graph()
        with open(path) as f:
            d = json.load(f)
        g.key = d["key"]
        g.obs = {int(k): v for k, v in d["obs"].items()}
        g.out = {int(k): [tuple(e) for e in v] for k, v in d["out"].items()}
        return g

    def binding(self, sid, c):
        s = self.key[sid]["s"][c["i"]]
        if s == []:
            return None
        return s.get(c["n"])


def unborn(key, interps):
    """The interpreters that do not exist yet in the state `key` (they have the
    empty scope; `new` constructs them)."""
    return [x for x in interps if key["s"][x] in ([], {})]


def init_id(g, interps):
    cands = []
    for i, k in enumerate(g.key):
        if k["n"] == 0 and k["g"] == [] and not k.get("e") and not k.get("ne") and not k.get("w") and all(
                (k["s"][x] if k["s"][x] != [] else {}).keys() <= {"secret"}
                and set(k["m"][x] if k["m"][x] != [] else {}) <= MODEL_BUNDLED | {"io"}     # start-up modules
                and k["k"][x] == [] and set(k["l"][x] if k["l"][x] != [] else {}) <= MODEL_BUNDLED | {"io"}
                for x in interps):
            cands.append((-len(unborn(k, interps)), i))
    if not cands:
        raise MachineryError("initial state not exported")
    return min(cands)[1]      # (the state in which the most interpreters are still to be made)


# ------------------------------------------------------------------ walker
class Walker:
    """Executes plan trees on forked copies of live interpreters.

    plan(sid, depth, path, tag) -> list of
        (cmd, outcome, post sid, expand, tag', inline)
    Every executed edge is compared with the spec; findings go to a shared
    append-only file as JSON lines.

    Process discipline: the walk is a depth-first traversal in which a child
    is normally forked and waited for at once (so a chain of at most
    tree-depth processes exists, one of them running).  When one of the
    NPROC-1 slots of the semaphore is free the child is instead started
    asynchronously as a further chain; it gives the slot back when its whole
    subtree is done.  At most NPROC processes run and at most about
    NPROC x depth exist; finished children are reaped as the loop goes."""

    def __init__(self, g, interps, plan, loadcap, outpath, nproc=None, insec=(), world=False):
        self.g, self.interps = g, interps
        self.insec, self.world = insec, world
        self.plan, self.loadcap = plan, loadcap
        self.outpath = outpath
        self.sem = multiprocessing.Semaphore((nproc or NPROC) - 1)
        self.fd = None
        self.root = None

    def emit(self, rec):
        rec["root"] = self.root
        os.write(self.fd, (json.dumps(rec) + "\n").encode())

    def spawn(self, asyncs, body):
        """Run body() in a forked copy: asynchronously if a slot is free, else
        wait for it.  asyncs collects the pids still to be reaped."""
        slot = self.sem.acquire(block=False)
        pid = os.fork()
        if pid == 0:
            code = 0
            try:
                body()
            except BaseException:  # noqa: BLE001
                import traceback
                try:
                    self.emit({"t": "crash", "what": traceback.format_exc()[-1500:]})
                except Exception:  # noqa: BLE001
                    pass
                code = 3
            if slot:
                self.sem.release()
            os._exit(code)
        if slot:
            asyncs.append(pid)
            for p in list(asyncs):               # reap what has finished meanwhile
                r, st = os.waitpid(p, os.WNOHANG)
                if r:
                    asyncs.remove(p)
                    self.status(st)
        else:
            _, st = os.waitpid(pid, 0)
            self.status(st)

    def status(self, st):
        if st != 0:
            self.emit({"t": "crash", "what": f"walker child exited with status {st}"})

    def start(self, roots):
        """roots: list of (root sid, module directory, initial tag).  Runs the
        plan below every root; returns when every process has ended."""
        self.fd = os.open(self.outpath, os.O_WRONLY | os.O_APPEND | os.O_CREAT)
        gc.disable()
        late = unborn(self.g.key[roots[0][0]], self.interps) if roots else []
        # constructed once; every root forks a pristine copy
        warm = Sessions(self.interps, late=late, insec=self.insec, world=self.world)
        asyncs = []
        for k, (root_sid, moddir, tag) in enumerate(roots):
            def body(k=k, root_sid=root_sid, moddir=moddir, tag=tag):
                self.root = k
                warm.configure(moddir)
                n = self.check_state(warm, root_sid, [], None)
                self.emit({"t": "n", "edges": 0, "evals": n})
                self.children(warm, root_sid, 0, [], None, tag)
            self.spawn(asyncs, body)
        for pid in asyncs:
            _, st = os.waitpid(pid, 0)
            self.status(st)

    def children(self, sess, sid, depth, path, prev, tag):
        """Plan items that are not `inline` get a forked copy of this process
        each (they need the state as it is now); inline items are then executed
        one after the other in this process (their path records what really
        ran before them)."""
        items = self.plan(sid, depth, path, tag)
        asyncs = []
        for (c, o, q, expand, tag2, inline) in items:
            if inline:
                continue

            def body(c=c, o=o, q=q, expand=expand, tag2=tag2):
                try:
                    path2, prev2 = self.edge(sess, sid, c, o, q, path, prev)
                except Abandon:
                    return
                if expand:
                    self.children(sess, q, depth + 1, path2, prev2, tag2)
            self.spawn(asyncs, body)
        cur = sid
        inl = [it for it in items if it[5]]
        for k, (c, o, q, expand, tag2, _) in enumerate(inl):
            try:
                path, prev = self.edge(sess, cur, c, o, q, path, prev)
            except Abandon:
                break
            cur = q
            depth += 1
            if expand:
                if k != len(inl) - 1:
                    raise MachineryError("only the last inline item may be expanded")
                self.children(sess, q, depth, path, prev, tag2)
        for pid in asyncs:
            _, st = os.waitpid(pid, 0)
            self.status(st)

    def edge(self, sess, sid, c, o, q, path, prev):
        """Execute one command on the live interpreters and compare."""
        g = self.g
        b = g.binding(sid, c)
        src = cmd_source(c, b)
        got, raw = sess.execute(c, src, o["kind"] == "interrupted")
        path2 = path + [[c, o, q, b]]
        findings = compare_outcome(cmd_label(c, b), got, raw, want_outcome(o), c, prev)
        n = 1 + self.check_state(sess, q, path2, findings)
        self.emit({"t": "n", "edges": 1, "evals": n})
        if sess.cyclic():
            raise Abandon()
        return path2, (c, raw)

    def check_state(self, sess, sid, path, findings):
        g = self.g
        findings = findings if findings is not None else []
        n = 0
        obs = g.obs.get(sid)
        if obs is None:
            raise MachineryError("no STATE record for a reached state")
        findings += state_findings(sess, self.interps, obs, g.key[sid], self.loadcap, half_defined(path))
        n += sum(2 + len(obs[i]) for i in self.interps if i in sess.it)
        for cat, what in findings:
            self.emit({"t": "f", "cat": cat, "what": what, "obs": obs, "key": g.key[sid],
                       "loadcap": self.loadcap, "path": [[p[0], p[1], p[3]] for p in path]})
        return n


def state_findings(sess, interps, obs, key, loadcap, soft=()):
    """Every interpreter's scope and diagnostics against the spec state."""
    findings = []
    if sess.cyclic():
        # what the language shows of it, with calls that end: a read of an
        # unknown name (the model's `read` of an undefined name) and ls()
        for i in interps:
            if i not in sess.it:
                continue
            got, _ = sess.run(i, "nosuch_c10")
            if got[:2] != ("err", "undef"):
                findings.append(("outcome-cls", f"{i}: reading an unknown name: outcome {got} but the spec "
                                                f"predicts a runtime error (Symbol not defined)"))
            findings += observe(sess, i, obs[i], names_only=True)
        findings.append(("diag:chain", "the environment chain of an interpreter is cyclic"))
        return findings
    for i in interps:
        findings += observe(sess, i, obs[i], soft=soft)
        if key is not None:
            findings += diagnostics(sess, i, key, loadcap)
    return findings


def compare_outcome(label, got, raw, want, c, prev):
    """Outcome of one interpret call against the spec, and - implementation
    against implementation - a failing command repeated at once."""
    findings = []
    if want[0] == "fail":
        # a module load that fails in the host: the statement asks that it is a
        # failure (whichever), the same when repeated (below), without residue
        if got[0] in ("val", "hang"):
            findings.append(("outcome-cls", f"{label}: outcome {got} but the spec predicts a failure {want[1:3]}"))
        elif got[:2] == ("err", "circular"):
            findings.append(("outcome", f"{label}: reported as a circular module dependency ({got[2]}), the spec "
                                        f"predicts the failure {want[1:3]}: there is no cycle"))
        elif got[0] == "host":
            findings.append(("drift:hostexc", f"{label}: the failure is the host exception {got[1]}"))
    elif got != want:
        if got[0] != want[0]:
            findings.append(("outcome-cls", f"{label}: outcome {got} but the spec predicts {want}"))
        elif got[0] == "err" and got[1] == "other":
            findings.append(("drift:errmsg", f"{label}: error message not classified: {got[2]}"))
        elif got[0] == "val" and (got[1] != "int" and want[1] != "int") and not got[1] == want[1] == "str":
            findings.append(("drift:retval", f"{label}: returned {got[1]}, spec {want[1]}"))
        else:
            findings.append(("outcome", f"{label}: outcome {got} but the spec predicts {want}"))
    if prev is not None and prev[0] == c and prev[1] is not None and raw != prev[1]:
        findings.append(("repeat", f"{label}: first attempt raised {tuple(prev[1])}, the repeat "
                                   f"{raw if raw else 'succeeded'}"))
    return findings


def collect(outpath):
    recs = []
    with open(outpath) as f:
        for line in f:
            recs.append(json.loads(line))
    return recs


# ------------------------------------------------------------------- plans
def cover_plan(g):
    """Per root: spanning tree (BFS: shortest paths) + every other edge once.

    Commands that leave the spec state unchanged (reads, most failing calls)
    are executed one after the other in the process of their state, each
    failing one repeated at once, twice round so that each follows each: what
    a failed call leaves behind in the implementation must not show in any
    later call.  A state-changing failing command off the tree is followed by
    one such round."""
    trees = {}

    def tree_of(root):
        tree = set()
        seen = {root}
        queue = [root]
        while queue:
            s = queue.pop(0)
            for k, (c, o, q) in enumerate(g.out[s]):
                if q not in seen:
                    seen.add(q)
                    tree.add((s, k))
                    queue.append(q)
        return tree

    def chain(sid, passes):
        items = []
        for _ in range(passes):
            for (c, o, q) in g.out[sid]:
                if q == sid:
                    items.append((c, o, q, False, None, True))
                    if o["cls"] != "val":
                        items.append((c, o, q, False, None, True))
        return items

    def plan(sid, depth, path, tag):
        if tag == "chain-only":
            return chain(sid, 1)
        if depth == 0:
            trees[sid] = tree_of(sid)
            tag = sid
        tree = trees[tag]
        items = []
        for k, (c, o, q) in enumerate(g.out[sid]):
            if q == sid:
                continue
            if (sid, k) in tree:
                items.append((c, o, q, True, tag, False))
            elif o["cls"] != "val":
                items.append((c, o, q, True, "chain-only", False))
            else:
                items.append((c, o, q, False, None, False))
        return items + chain(sid, 2)
    return plan


def depth_plan(g, maxlen):
    def plan(sid, depth, path, tag):
        if depth >= maxlen:
            return []
        return [(c, o, q, depth + 1 < maxlen, None, False) for (c, o, q) in g.out[sid]]
    return plan


def count_tree(g, root, maxlen):
    memo = {}

    def cnt(s, d):
        if d >= maxlen:
            return 0
        if (s, d) not in memo:
            memo[(s, d)] = sum(1 + cnt(q, d + 1) for (_, _, q) in g.out[s])
        return memo[(s, d)]
    return cnt(root, 0)


def trie_plan(g):
    """The initial tag of a root is a trie {edge index: subtrie}; a node with a
    single child continues in the same process."""
    def plan(sid, depth, path, tag):
        ks = sorted(tag, key=int)
        return [(g.out[sid][int(k)][0], g.out[sid][int(k)][1], g.out[sid][int(k)][2],
                 bool(tag[k]), tag[k], len(ks) == 1) for k in ks]
    return plan


def random_walks(g, root, rng, nwalks, maxlen):
    trie = {}
    for _ in range(nwalks):
        node, s = trie, root
        for _ in range(rng.randint(6, maxlen)):
            outs = g.out[s]
            if not outs:
                break
            k = rng.randrange(len(outs))
            node = node.setdefault(str(k), {})
            s = outs[k][2]
    return trie


# --------------------------------------------------------------- reporting
C10_VERDICT = {"outcome", "outcome-cls", "repeat", "names", "value"}


def report(run, recs, verdict_cats, prefix, fsdefs, interps):
    """Turn walker records into violations / drift. Deterministic order."""
    edges = evals = 0
    finds = []
    for r in recs:
        if r["t"] == "n":
            edges += r["edges"]
            evals += r["evals"]
        elif r["t"] == "crash":
            raise MachineryError("walker process crashed: " + r["what"])
        else:
            finds.append(r)
    finds.sort(key=lambda r: (len(r["path"]), r["root"], json.dumps(r["path"], sort_keys=True),
                              r["cat"], r["what"]))
    for r in finds:
        hist = [cmd_label(p[0], p[2]) for p in r["path"]]
        fsdef = fsdefs[r["root"]]
        if r["cat"] in verdict_cats:
            tail = " > ".join(hist[-2:])
            fsk = "" if not fsdef["g"] else " fs=" + gen_label(fsdef["g"])
            key = f"{prefix}:{r['cat']}:{tail} :: {r['what']}{fsk}"
            run.violation(key, f"{r['cat']}: after [{' ; '.join(hist)}] {r['what']}{fsk}",
                          {"kind": "history", "fs": fsdef, "interps": interps,
                           "path": r["path"], "obs": r["obs"], "key": r["key"], "loadcap": r["loadcap"],
                           "cat": r["cat"], "what": r["what"]})
        else:
            run.drift(r["cat"], {"history": hist[-6:], "what": r["what"]})
    return edges, evals


def gen_label(gen):
    return ",".join(f"{e['m']}>{e['d']}:{e['form']}{'!' if e['poke'] else ''}" for e in gen)


class Ahead:
    """TLC runs started ahead of their use, each in its own JVM, so that model
    checking overlaps with replaying; results are taken in program order."""

    def __init__(self, parallel=4):
        from concurrent.futures import ThreadPoolExecutor
        self.pool = ThreadPoolExecutor(max_workers=parallel)
        self.futs = {}

    def start(self, cfg, **kw):
        self.futs[cfg] = self.pool.submit(run_tlc, "Session", cfg, **kw)

    def graph(self, cfg, **kw):
        self.start(cfg, coverage="simulate" not in kw, timeout=3000, **kw)

    def take(self, cfg):
        return self.futs.pop(cfg).result()

    def close(self):
        self.pool.shutdown(wait=True, cancel_futures=True)


PINNED_KW = dict(workers=4, allow_violation=True, timeout=900)


def check_pinned(run, ahead):
    """The deviation switch set to the pinned code must give TLC the C10
    counterexample - otherwise the invariants are vacuous."""
    res = ahead.take("Session_pinned")
    run.add_tlc(res, "Session with UnwindOnFailure=FALSE (pinned code): counterexample expected")
    if res.ok or "Invariant FailIsIdempotent is violated" not in res.out:
        raise MachineryError("Session_pinned: TLC did not find the expected counterexample")
    return re.findall(r'ReqStart\(\[op \|-> "require", i \|-> "i1", n \|-> "", v \|-> 0, id \|-> "(\w+)"', res.out)


def check_pinned_env(run, ahead):
    """Likewise for interpret with a caller environment: with the root never
    detached (the pinned interpret) TLC must find an interpreter resolving
    names through a session that is not its own / through a cycle."""
    res = ahead.take("Session_pinnedenv")
    run.add_tlc(res, "Session with DetachCallerEnv=FALSE (pinned interpret): counterexample expected")
    if res.ok or "Invariant SessionsIsolated is violated" not in res.out:
        raise MachineryError("Session_pinnedenv: TLC did not find the expected counterexample")
    return re.findall(r'op \|-> "(env\w+)", i \|-> "(\w+)", n \|-> "\w*", v \|-> 0, id \|-> "(\w+)"', res.out)


def check_pinned_host(run, ahead):
    """Round 3: the stack unwound for the language's error classes only - TLC
    must find a module load that fails in the host and poisons its repeat."""
    res = ahead.take("Session_pinnedhost")
    run.add_tlc(res, "Session with UnwindsFor=UnwindsLang (stack unwound for language errors only): "
                     "counterexample expected")
    if res.ok or "Invariant FailIsIdempotent is violated" not in res.out:
        raise MachineryError("Session_pinnedhost: TLC did not find the expected counterexample")
    return re.findall(r'ReqStart\(\[op \|-> "require", i \|-> "i1", n \|-> "", v \|-> 0, id \|-> "(\w+)"', res.out)


def check_pinned_world(run, ahead):
    """Round 5: a loader that remembers the names it did not find - TLC must find
    a module reported missing although its file is on the module path."""
    res = ahead.take("Session_pinnedworld")
    run.add_tlc(res, "Session with RemembersMissing (the loader keeps the names it did not find): "
                     "counterexample expected")
    if res.ok or "Action property MissingOnlyIfAbsent is violated" not in res.out:
        raise MachineryError("Session_pinnedworld: TLC did not find the expected counterexample")
    return re.findall(r'op \|-> "(\w+)", i \|-> "(\w+)", n \|-> "", v \|-> \d, id \|-> "(\w*)"', res.out)


def check_pinned_nest(run, ahead):
    """Round 3: the pinned interpret with a caller environment that has a parent
    of its own - TLC must find the root (outer) left hanging under a session."""
    res = ahead.take("Session_pinnednest")
    run.add_tlc(res, "Session with DetachCallerEnv=FALSE, caller environments with a parent: counterexample expected")
    if res.ok or "Invariant CallerEnvDetached is violated" not in res.out:
        raise MachineryError("Session_pinnednest: TLC did not find the expected counterexample")
    return re.findall(r'op \|-> "(env\w+)", i \|-> "(\w+)", n \|-> "\w*", v \|-> 0, id \|-> "(\w+)"', res.out)


def run_walk_job(job, d):
    """The walk runs in a fresh, small process: forking it is cheap."""
    import subprocess
    jpath = os.path.join(d, "job.json")
    with open(jpath, "w") as f:
        json.dump(job, f)
    p = subprocess.run([sys.executable, "-m", "harness.c10", jpath], env=dict(os.environ),
                       cwd=os.path.dirname(os.path.dirname(os.path.abspath(__file__))),
                       stdout=subprocess.PIPE, stderr=subprocess.STDOUT, text=True, timeout=7000)
    if p.returncode != 0:
        raise MachineryError("walker failed: " + p.stdout[-2000:])


def walk_main(jpath):
    with open(jpath) as f:
        job = json.load(f)
    g = Graph.undump(job["graph"])
    mode = job["mode"]
    if mode == "cover":
        plan = cover_plan(g)
    elif mode == "depth":
        plan = depth_plan(g, job["maxlen"])
    else:
        plan = trie_plan(g)
    w = Walker(g, job["interps"], plan, job["loadcap"], job["out"],
               insec=job.get("insec") or (), world=job.get("world", False))
    w.start([tuple(r) for r in job["roots"]])


def tlc_graph(run, cfg, label, c11=False, off=(), ahead=None, **kw):
    if ahead is not None:
        res = ahead.take(cfg)
    else:
        res = run_tlc("Session", cfg, coverage="simulate" not in kw, timeout=3000, **kw)
    for a in ("GenEdge", "GenDone"):
        if not c11:
            res.coverage.pop(a, None)      # the generator is off in c10 mode
    for a in off:
        res.coverage.pop(a, None)          # actions the cfg switches off by its bounds
    res.coverage.pop("NextE", None)
    run.add_tlc(res, label)
    never = [a for a, n in res.coverage.items() if n == 0]
    if never:
        raise MachineryError(f"{cfg}: actions never taken: {never}")
    g = Graph().load(res)
    if not g.fsdefs:
        raise MachineryError("no FSDEF record")
    return g, res


def subgraph(g, sids):
    """The part of g reachable from sids, renumbered (edge order kept)."""
    remap = {}
    order = []
    stack = list(sids)
    while stack:
        s = stack.pop()
        if s in remap:
            continue
        remap[s] = len(order)
        order.append(s)
        for (_, _, q) in g.out[s]:
            if q not in remap:
                stack.append(q)
    h = Graph()
    h.key = [g.key[s] for s in order]
    h.obs = {remap[s]: g.obs[s] for s in order if s in g.obs}
    h.out = {remap[s]: [(c, o, remap[q]) for (c, o, q) in g.out[s]] for s in order}
    return h, remap


ROOTS_PER_BATCH = 400


def walk(run, g, interps, roots, fsdefs, mode, verdict, prefix, loadcap=1, maxlen=None):
    """roots: list of (root sid, index into fsdefs, initial tag).  Many roots
    are walked in batches, each by a fresh process that holds only its part of
    the graph (forking a small process is cheap)."""
    recs = []
    for b0 in range(0, len(roots), ROOTS_PER_BATCH):
        batch = roots[b0:b0 + ROOTS_PER_BATCH]
        h, remap = (g, None) if len(roots) <= ROOTS_PER_BATCH else subgraph(g, [r[0] for r in batch])
        d = tempfile.mkdtemp(prefix="c10-")
        try:
            dirs = {}
            jroots = []
            for (sid, fi, tag) in batch:
                if fi not in dirs:
                    top = os.path.join(d, "fs%d" % fi)
                    os.mkdir(top)
                    dirs[fi] = materialise(fsdefs[fi], top)
                jroots.append([sid if remap is None else remap[sid], dirs[fi], tag])
            job = {"graph": os.path.join(d, "graph.json"), "interps": interps, "roots": jroots,
                   "mode": mode, "maxlen": maxlen, "loadcap": loadcap,
                   "insec": fsdefs[0].get("insec") or [], "world": bool(fsdefs[0].get("worldmode")),
                   "out": os.path.join(d, "findings.ndjson")}
            h.dump(job["graph"])
            run_walk_job(job, d)
            for r in collect(job["out"]):
                if r.get("root") is not None:
                    r["root"] += b0
                recs.append(r)
        finally:
            shutil.rmtree(d, ignore_errors=True)
    return report(run, recs, verdict, prefix, [fsdefs[fi] for (_, fi, _) in roots], interps)


def run_graph(run, cfg, interps, label, modes, rng, ahead=None):
    """One TLC run of Session.tla (c10 mode) + one walk per entry of modes:
    (mode, params) with mode in cover | depth | walks."""
    g, _ = tlc_graph(run, cfg, label, ahead=ahead)
    root = init_id(g, interps)
    res = []
    for mode, params in modes:
        tag = None
        if mode == "walks":
            tag = random_walks(g, root, rng, params["nwalks"], params["maxlen"])
        t0 = time.time()
        e, v = walk(run, g, interps, [(root, 0, tag)], g.fsdefs[:1], mode, C10_VERDICT,
                    "c10/" + cfg, maxlen=params.get("maxlen"))
        res.append((e, v, round(time.time() - t0, 1)))
    return g, res


def run(run):
    quick = run.tier == "quick"
    rng = random.Random(run.seed)
    info = {}
    ahead = Ahead(parallel=5)
    try:
        ahead.graph("Session_one")
        ahead.start("Session_pinned", **PINNED_KW)
        ahead.start("Session_pinnedenv", **PINNED_KW)
        ahead.graph("Session_two")
        ahead.graph("Session_env1", workers=4)          # (small models: a few workers are enough)
        ahead.graph("Session_env2", workers=4)
        ahead.start("Session_pinnedhost", **PINNED_KW)
        if not quick:
            ahead.start("Session_pinnednest", **PINNED_KW)
        ahead.graph("Session_fails", workers=4)
        ahead.graph("Session_dirs", workers=4)
        ahead.graph("Session_nest", workers=4)
        ahead.start("Session_pinnedworld", **PINNED_KW)         # round 5
        ahead.graph("Session_world", workers=4)
        ahead.graph("Session_base", workers=4)
        run_checks(run, quick, rng, info, ahead)
    finally:
        ahead.close()


def run_checks(run, quick, rng, info, ahead):
    total_edges = total_evals = 0
    reqs = check_pinned(run, ahead)
    info["pinned_counterexample"] = "require %s twice" % (reqs[0] if reqs else "?")
    envs = check_pinned_env(run, ahead)
    info["pinned_env_counterexample"] = " ; ".join(f"{i}: {op} ({e} environment)" for op, i, e in envs[:4])
    reqs = check_pinned_host(run, ahead)
    info["pinned_host_counterexample"] = "require %s twice" % (reqs[0] if reqs else "?")
    steps = check_pinned_world(run, ahead)
    info["pinned_world_counterexample"] = " ; ".join(f"{i}: {op} {m}".strip() for op, i, m in steps[:6])
    if not quick:
        envs = check_pinned_nest(run, ahead)
        info["pinned_nest_counterexample"] = " ; ".join(f"{i}: {op} ({e} environment)" for op, i, e in envs[:4])

    def go(cfg, interps, label, *modes):
        """modes: (name, mode, params)"""
        nonlocal total_edges, total_evals
        g, res = run_graph(run, cfg, interps, label, [(m, p) for (_, m, p) in modes], rng,
                           ahead if cfg in ahead.futs else None)
        for (name, _, _), (e, v, wall) in zip(modes, res):
            total_edges += e
            total_evals += v
            info[name] = {"cfg": cfg, "states": len(g.key), "graph_edges": sum(len(x) for x in g.out.values()),
                          "commands_executed": e, "replay_wall_s": wall}
        return g

    one = [("one_cover", "cover", {})]
    two = [("two_cover", "cover", {})]
    if not quick:
        one.append(("one_histories_le5", "depth", {"maxlen": 5}))
        two.append(("two_histories_le4", "depth", {"maxlen": 4}))
        two.append(("two_walks_le30", "walks", {"nwalks": 3000, "maxlen": 30}))
    g1 = go("Session_one", ["i1"], "Session, one interpreter, core alphabet (repaired behaviour)", *one)
    go("Session_two", ["i1", "i2"], "Session, two interleaved interpreters (repaired behaviour)", *two)
    env1 = [("env_one_cover", "cover", {})]
    env2 = [("env_two_cover", "cover", {})]
    if not quick:
        env1.append(("env_one_histories_le4", "depth", {"maxlen": 4}))
        env2.append(("env_two_histories_le3", "depth", {"maxlen": 3}))
        env2.append(("env_two_walks_le30", "walks", {"nwalks": 1500, "maxlen": 30}))
    go("Session_env1", ["i1"], "Session, one interpreter, interpret with a caller environment (repaired behaviour)",
       *env1)
    go("Session_env2", ["i1", "i2"], "Session, two interpreters handed the same caller environment "
       "(repaired behaviour)", *env2)
    # round 3
    # (the cover walk reaches every state along ONE path; what these graphs are
    # about - state of the implementation the model does not have: a cache
    # shared by the process, an interpreter made after another was used - shows
    # along particular orders, and the graphs are small: every short history
    # is walked in the quick tier too)
    fails = [("fails_cover", "cover", {}), ("fails_histories_le2", "depth", {"maxlen": 2})]
    dirs = [("dirs_cover", "cover", {}), ("dirs_histories_le4", "depth", {"maxlen": 4})]
    nest = [("nest_cover", "cover", {}), ("nest_histories_le2", "depth", {"maxlen": 2})]
    if not quick:
        fails += [("fails_histories_le3", "depth", {"maxlen": 3}),
                  ("fails_walks_le30", "walks", {"nwalks": 500, "maxlen": 30})]
        dirs += [("dirs_histories_le5", "depth", {"maxlen": 5}),
                 ("dirs_walks_le30", "walks", {"nwalks": 500, "maxlen": 30})]
        nest += [("nest_histories_le3", "depth", {"maxlen": 3}),
                 ("nest_walks_le30", "walks", {"nwalks": 1000, "maxlen": 30})]
    go("Session_fails", ["i1"], "Session, one interpreter: defining statements that fail, module loads that fail "
       "in the host (repaired behaviour)", *fails)
    go("Session_dirs", ["i1", "i2"], "Session, two interpreters with different module directories, the second "
       "constructed during the history (repaired behaviour)", *dirs)
    go("Session_nest", ["i1", "i2"], "Session, two interpreters handed caller environments that have a parent "
       "of their own (repaired behaviour)", *nest)
    # round 5 (the cover walk executes every edge once, from a state whose history has
    # both interpreters' doings in it; what a FAILED call leaves in the implementation
    # shows only along the histories in which the world changes after it: all <= 3)
    world = [("world_cover", "cover", {}), ("world_histories_le3", "depth", {"maxlen": 3})]
    base = [("base_cover", "cover", {}), ("base_histories_le3", "depth", {"maxlen": 3})]
    if not quick:
        world += [("world_histories_le4", "depth", {"maxlen": 4}),
                  ("world_walks_le30", "walks", {"nwalks": 300, "maxlen": 30})]
        base += [("base_histories_le4", "depth", {"maxlen": 4}),
                 ("base_walks_le30", "walks", {"nwalks": 500, "maxlen": 30})]
    go("Session_world", ["i1", "i2"], "Session, the world changes between two commands: a module file appears, "
       "disappears, is edited before it was ever loaded; a program appends a directory to its module path "
       "(repaired behaviour)", *world)
    go("Session_base", ["i1", "i2"], "Session, two interpreters that differ below the session (secure mode, a "
       "reassigned base-level function): bundled modules List / IO, doc strings (repaired behaviour)", *base)
    s0 = init_id(g1, ["i1"])
    run.sample({"EDGE": {"from": g1.key[s0], "cmd": g1.out[s0][0][0], "outcome": g1.out[s0][0][1]}})
    run.sample({"STATE.obs": g1.obs[g1.out[s0][-1][2]]})
    if not quick:
        go("Session_wide", ["i1"], "Session, one interpreter, wide alphabet (all require forms)",
           ("wide_cover", "cover", {}), ("wide_walks_le30", "walks", {"nwalks": 4000, "maxlen": 30}))
    run.cov["traces_validated_against_impl"] = total_edges
    run.cov["evaluations"] = total_evals
    run.cov["distinct_nontrivial"] = total_edges
    run.cov["rule"] = ("one case per executed command-level transition of the Session state graph "
                       "(each compared on outcome and on the full predicted scope of every interpreter); "
                       "quick: every edge of the graph along a spanning tree, state-preserving commands "
                       "chained twice round in their state, each failing one repeated at once (the three small "
                       "graphs of round 3 - different module directories + an interpreter constructed during the "
                       "history, caller environments with a parent, failing definers / loads failing in the host - "
                       "also along every history up to length 4 / 2 / 2; the two graphs of round 5 - a world that "
                       "changes between the calls, interpreters that differ below the session - up to length 3); thorough "
                       "adds every history up to the stated length and random walks; evaluations counts "
                       "interpret calls and scope look-ups")
    run.cov["exhaustive"] = True
    run.cov["bounds"] = info
    run.assumptions += [
        "checkerlang_module_path and the load log list are placed in the base environment (DESIGN 5.4)",
        "the state after a failed call is the state at the point of failure (DESIGN 5.3): definitions made "
        "before the failure, a loop variable bound when the loop aborted and modules fully loaded before "
        "the failure stay",
        "same error = same exception class, error value and message",
        "module-object member sets, modulestack, module cache and load counters are diagnostics (drift) "
        "here (C11 judges them); the verdict is on call outcomes and on the visible names and their values",
        "a module load that fails in the host (file not UTF-8, directory in place of the file, host stack "
        "exhausted) may fail with any exception (which one is C13's concern: drift hostexc); compared are the "
        "repeat, the absence of a bogus circular-dependency report and the state afterwards",
        "a defining statement that fails defines nothing: that an earlier definition of the name keeps its value "
        "is compared (value); a name that becomes visible although its defining statement failed only drifts "
        "(halfdef; state at the point of failure, DESIGN 5.3)",
        "round 5: the commands of the world (a module file appears, disappears, gets another content) are the "
        "host's doing between two interpret calls; a file is removed / edited only while no interpreter has loaded "
        "it; the interpreters of that graph name their module directory relative to the working directory",
        "round 5: `is_list = fn(obj) FALSE` issued in a session assigns in the base environment of THAT interpreter "
        "(the name is defined there), so List->first fails in that interpreter afterwards and in no other; the "
        "doc string of a definition is asked for in the OTHER interpreter only (info(NULL) in i2 after "
        "`\"doc\" def dn = NULL` in i1): what info(NULL) shows in the defining interpreter is not judged",
        "whether a caller's environment is still attached after the call is read from the private attribute "
        "`parent` (drift callerenv); the verdict comes from the outcomes of the later calls that use the chain",
    ]


# ------------------------------------------------------------------ replay
def replay_history(run, case, verdict_cats, prefix):
    interps = case["interps"]
    d = tempfile.mkdtemp(prefix="c10r-")
    cwd = os.getcwd()
    try:
        late = sorted({p[0]["i"] for p in case["path"] if p[0]["op"] == "new"})
        sess = Sessions(interps, materialise(case["fs"], d), late=late, insec=case["fs"].get("insec") or (),
                        world=case["fs"].get("worldmode"))
        prev = None
        for k, (c, o, b) in enumerate(case["path"]):
            src = cmd_source(c, b)
            got, raw = sess.execute(c, src, o["kind"] == "interrupted")
            want = want_outcome(o)
            last = k == len(case["path"]) - 1
            finds = compare_outcome(cmd_label(c, b), got, raw, want, c, prev)
            prev = (c, raw)
            if last and case.get("obs") is not None:
                finds += state_findings(sess, interps, case["obs"], case.get("key"), case.get("loadcap", 1),
                                        half_defined(case["path"]))
            for cat, what in finds:
                if cat in verdict_cats:
                    run.violation(f"{prefix}:replay:{cat}:{what}", f"{cat}: {what}", case)
            if sess.cyclic():
                break
    finally:
        os.chdir(cwd)
        shutil.rmtree(d, ignore_errors=True)


def replay(run, case):
    replay_history(run, case, C10_VERDICT, "c10")


if __name__ == "__main__":
    walk_main(sys.argv[1])
