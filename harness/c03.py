"""C03 - see harness/machine.py, spec/Machine.tla, spec/MachineGen.tla, spec/MachineRun.tla."""
from . import machine

FAMILY = "scope"


def run(run):
    quick = run.tier == "quick"
    cfgs = machine.CONFIGS[FAMILY]["quick" if quick else "thorough"]
    n = 0
    for cfg in cfgs:
        n += machine.check_family(run, cfg, f"Machine ({cfg})")
    nr = machine.check_random(run, FAMILY, 1500 if quick else 20000, "MachineRand: seeded random programs")
    run.cov["random_programs"] = nr
    n += nr
    run.cov["traces_validated_against_impl"] = n
    run.cov["evaluations"] = n
    run.cov["distinct_nontrivial"] = n
    run.cov["rule"] = "distinct programs (parameter tuples of MachineGen, and seeded random syntax trees of harness/proggen.py evaluated by MachineRand) whose model run terminated; each rendered and executed once"
    run.cov["exhaustive"] = True
    run.assumptions += machine.ASSUMPTIONS


replay = machine.replay
