"""C03 - see harness/machine.py, spec/Machine.tla, spec/MachineGen.tla, spec/MachineRun.tla."""
from . import machine

FAMILY = "scope"


def run(run):
    quick = run.tier == "quick"
    cfgs = machine.CONFIGS[FAMILY]["quick" if quick else "thorough"]
    n = 0
    for cfg in cfgs:
        n += machine.check_family(run, cfg, f"Machine ({cfg})")
    nr = machine.check_random(run, FAMILY, 4000 if quick else 30000, "MachineRand: seeded random programs")
    run.cov["random_programs"] = nr
    n += nr
    n += fixed_programs(run)
    n += env_traces(run, quick)
    run.cov["traces_validated_against_impl"] = n
    run.cov["evaluations"] = n
    run.cov["distinct_nontrivial"] = n
    run.cov["rule"] = "distinct programs (parameter tuples of MachineGen, and seeded random syntax trees of harness/proggen.py evaluated by MachineRand) whose model run terminated; each rendered and executed once"
    run.cov["exhaustive"] = True
    run.assumptions += machine.ASSUMPTIONS


# "every call gets fresh parameter bindings ... defaults evaluated at call time": with values that can be changed
# in place (Machine.tla's values cannot) - these few programs carry their expected results with them
FIXED_PROGRAMS = [
    ("def f(a = []) do append(a, 1); a end; [f(), f(), f([5])]", "[[1], [1], [5, 1]]"),
    ("def f(k, m = <<<>>>) do m[k] = 1; m end; [f('x'), f('y')]", "[<<<'x' => 1>>>, <<<'y' => 1>>>]"),
    ("def f(s = <<>>) do append(s, length(s)); s end; [f(), f()]", "[<<0>>, <<0>>]"),
    ("def f(o = <*n = 0*>) do o->n = o->n + 1; o->n end; [f(), f()]", "[1, 1]"),
    ("def mk() do def acc = []; fn(x) do append(acc, x); acc end end; def a = mk(); def b = mk(); a(1); b(2); [a(3), b(4)]",
     "[[1, 3], [2, 4]]"),
    # the SAME use of a name, evaluated again where a nearer binding has appeared meanwhile (or is absent this time):
    # every evaluation finds the nearest enclosing binding that exists at that moment
    ("def v = 'global'; def f(c) do if c then do def v = 'local' end; v end; [f(FALSE), f(TRUE), f(FALSE)]", "['global', 'local', 'global']"),
    ("def v = 'g'; def mk() do def r = fn() v; def a = r(); def v = 'l'; [a, r()] end; mk()", "['g', 'l']"),
    ("def v = 'g'; def mk(c) do if c then do def v = 'l' end; fn() v end; def a = mk(FALSE); def b = mk(TRUE); [a(), b(), a()]",
     "['g', 'l', 'g']"),
    ("def f(l) length(l); def a = f([1, 2]); def length(x) 99; [a, f([1, 2])]", "[2, 99]"),
    ("def n = 1; def g() n; def h(n) g() + n; [h(10), g(), h(20)]", "[11, 1, 21]"),
    ("def v = 1; def f(c) do def r = []; for i in [1, 2, 3] do if i == c then do def v = 10 * i end; append(r, v) end; r end; "
     "[f(2), f(0), f(3)]", "[[1, 20, 20], [1, 1, 1], [1, 1, 30]]"),
]


def fixed_programs(run):
    from ckl.interpreter import Interpreter
    from . import absval
    n = 0
    for src, want in FIXED_PROGRAMS:
        o = absval.outcome(lambda: Interpreter(True, False).interpret(src, "c03"))
        w = absval.outcome(lambda: Interpreter(True, False).interpret(want, "c03"))
        n += 1
        if o[0] != "val" or w[0] != "val" or not absval.strict_eq(absval.to_py(o[1]), absval.to_py(w[1])):
            got = absval.to_py(o[1]) if o[0] in ("val", "err") else o[1:]
            run.violation("fixed:" + src, f"fresh-bindings: {src!r} should yield {want}, got {o[0]} {got!r}",
                          {"kind": "fixed", "src": src, "want": want})
    return n


def env_traces(run, quick):
    """binding B: every frame creation, definition, assignment, lookup, closure creation and call of the
    real interpreter (generated programs, the repository's own test programs, the library code they run)
    validated by Env_Trace.tla"""
    import random
    from . import envtrace as et
    from .c05 import repo_test_programs
    rng = random.Random(run.seed + 3)
    gen = sorted(set(machine.SOURCES))
    gen = rng.sample(gen, min(len(gen), 1200 if quick else 12000))
    progs = [(machine.PRELUDE + g, False) for g in gen] + [(t, True) for t in repo_test_programs()]
    events, metas = et.record(progs)
    stats = et.validate(run, events, metas, "Env_Trace: the environment chain as the real interpreter uses it")
    run.cov["env_trace_events"] = len(events)
    run.cov["env_trace_calls"] = sum(1 for e in events if e["e"] == "call")
    run.cov["env_trace_frames"] = sum(1 for e in events if e["e"] == "frame")
    run.cov["env_trace_unchecked"] = stats["unchecked"]
    k0 = next(k for k, m in enumerate(metas) if m != "<library>")
    run.sample({"env_trace": events[k0:k0 + 14], "of": metas[k0][:200]})
    return len(progs)


def replay(run, case):
    if case.get("kind") == "fixed":
        global FIXED_PROGRAMS
        keep = FIXED_PROGRAMS
        FIXED_PROGRAMS = [(case["src"], case["want"])]
        try:
            fixed_programs(run)
        finally:
            FIXED_PROGRAMS = keep
        run.sample(case)
        return
    if case.get("kind") == "envtrace":
        from . import envtrace as et
        events, metas = et.record([(case["src"], True)])
        et.validate(run, events, metas, "Env_Trace (replay)")
        return
    return machine.replay(run, case)
