"""C08 - rendering is canonical and data literals round-trip through print and parse.

Spec: spec/Val.tla (Render, Tokens, Norm, Escape, ScanStr quoted from the
statement), spec/ValLaws.tla (the text depends only on the value and
determines it, numeral and string shapes, quote/scan round trip of every
string over an alphabet around the quote and the escapes - checked by TLC),
spec/Val_Trace.tla.

Binding A: TLC exports the universe with the text and the token sequence of
every value.  Each value is built in the implementation in several insertion
orders (constructors and literals); compared are (i) that all of them give
one text, (ii) the shape of that text - the tokens the real scanner delivers
against the predicted ones (int numeral / decimal numeral with a fraction /
string token whose payload is the string), and the text itself up to blanks
outside literals, (iii) for data values that evaluating the text gives the
same value, of the same type, rendering to the same text.
Binding B: random data values to depth 3 with adversarial strings, recorded
with the scanner's tokens and the re-evaluated value, validated by TLC
against Val_Trace; decimals and ints of all magnitudes are driven from Python
(shape by the real scanner: one decimal / int token, optional minus; exact
round trip of the bits).
"""
import hashlib
import math
import random

from .common import MachineryError
from .tla import run_tlc
from . import valmodel as M
from .valmodel import V
from .c06 import Ctx, build_universe, lit_key


def render(v):
    return M.host(lambda: str(v))


def roundtrip(cx, a, txt, what, case, key):
    """(iii): evaluating the text gives the same value, type and text"""
    o = cx.im.run(txt)
    cx.n_eval += 1
    if o[0] != "val":
        cx.vio(f"round-trip:{key}", f"round-trip: the text {txt!r} of {what} does not evaluate: "
                                    f"{o[0]} {str(o[1])[:100]}", case)
        return None
    w = o[1]
    if M.vkey(w, cx.im.refs) != M.akey(a):
        if w.type() != M.build(a, cx.im.refs).type():
            cx.vio(f"round-trip-type:{key}", f"round-trip: the text {txt!r} of {what} evaluates to a "
                                             f"{w.type()}", case)
        else:
            cx.vio(f"round-trip-value:{key}", f"round-trip: the text {txt!r} of {what} evaluates to {w}, "
                                              f"another value", case)
        return w
    t2 = render(w)
    if t2[0] != "val" or t2[1] != txt:
        cx.vio(f"round-trip-text:{key}", f"round-trip: the re-evaluated value of {txt!r} renders as "
                                         f"{t2[1]!r}", case)
    return w


def texts_of_orders(cx, a, rng, nrand):
    """the texts of the value built in several insertion orders"""
    im = cx.im
    out = []
    variants = [a] + M.perms_of(a, rng, 5) + [M.deep_reorder(rng, a) for _ in range(nrand)]
    for b in variants:
        t = render(M.build(b, im.refs))
        out.append((lit_key(b) + " (constructors)", t))
        # string(x) converts scalars (a string to itself, NULL to ''): the text form is taken inside a list
        o = im.run("string([%s])" % M.literal(b))
        cx.n_eval += 1
        if o[0] == "val":
            out.append((lit_key(b) + " (literal)", ("val", o[1].value[1:-1])))
        else:
            out.append((lit_key(b) + " (literal)", ("host", o[0], str(o[1]))))
    return out


def check_value(cx, a, want_txt, want_toks, order_stated, rng, nrand=2):
    key = lit_key(a)
    case = {"kind": "value", "v": a}
    texts = texts_of_orders(cx, a, rng, nrand if M.depth(a) else 0)
    cx.n_eval += len(texts)
    base = texts[0][1]
    if base[0] != "val":
        cx.vio(f"render:{key} !{base[1]}", f"host-exception: rendering {key} raised {base[1]}", case)
        return None
    txt = base[1]
    for how, t in texts[1:]:
        if t != base:
            cx.vio(f"construction-order:{key}", f"construction-order: {key} renders as {txt!r} but built as "
                                                f"{how} as {t[1]!r}", case)
            break
    # (ii) the shape
    try:
        got_toks = M.toks_of(txt)
    except Exception as e:  # noqa: BLE001
        got_toks = None
        cx.vio(f"lex:{key}", f"shape: the text {txt!r} of {key} cannot be scanned: {type(e).__name__}", case)
    if want_txt is not None:
        wt = M.text(want_txt)
        if order_stated:
            if got_toks is not None and got_toks != want_toks:
                cx.vio(f"tokens:{key}", f"shape: the text {txt!r} of {key} scans as "
                                        f"{_toks(got_toks)}, expected {_toks(want_toks)}", case)
            elif txt != wt:
                if M.strip_outside_space(txt) == M.strip_outside_space(wt):
                    cx.run.drift("blanks-outside-literals", {"impl": txt, "model": wt})
                else:
                    cx.vio(f"text:{key}", f"shape: {key} renders as {txt!r}, expected {wt!r} (quoting / "
                                          f"escaping / numerals)", case)
        elif got_toks is not None:
            srt = lambda ts: sorted((t["t"], tuple(t["s"])) for t in ts)  # noqa: E731
            if srt(got_toks) != srt(want_toks):
                cx.vio(f"tokens:{key}", f"shape: the text {txt!r} of {key} scans as {_toks(got_toks)}, "
                                        f"expected (in some order) {_toks(want_toks)}", case)
            elif got_toks != want_toks:
                cx.run.drift("enumeration-order-not-named-by-the-statement", {"impl": txt, "model": wt})
    if M.is_data(a):
        roundtrip(cx, a, txt, key, case, key)
    return txt


def _toks(ts):
    return " ".join(f"{t['t']}:{M.text(t['s'])!r}" for t in ts)


# ------------------------------------------------------------- fixed cases
def fixed_cases():
    """values and construction histories outside what the random generator
    draws, each reported under a fixed key"""
    I, D, S, L, St, Mp, P, N = M.a_int, M.a_dec, M.a_str, M.a_list, M.a_set, M.a_map, M.a_pat, M.a_null
    vals = [
        # patterns whose payload interferes with the // delimiters
        P("a//b"), P("/a"), P("a/"), P(""), L([P("x//")]),
        # NULL as a map key
        Mp([N()], [I(1)]), Mp([I(1), N()], [I(2), N()]), L([Mp([N()], [S("a")])]),
        # nested brackets
        St([St([])]), St([St([St([])])]), St([Mp([], [])]), Mp([St([])], [St([])]), Mp([I(1)], [St([I(1)])]),
        St([St([I(1)]), St([I(2)])]), St([Mp([S("a")], [I(1)])]), Mp([Mp([], [])], [I(1)]),
        L([St([St([S("<")])])]), St([S("<"), S(">")]), St([I(-1)]), Mp([I(-1)], [D(-0.5)]),
        # strings
        S("'"), S("\\"), S("\\'"), S("\\n"), S("\n\r\t"), S("#"), S("//"), S("a//b"), S("{x}"), S("<<>>"),
        S("é€"), S("\\x41"), S('"'), S("a\\"), S(" "), S(""), S("\x00"), S("\x0b\x0c"), S(" "),
        L([S("'"), S("\\"), S("\n")]), Mp([S("'")], [S("\\")]), St([S("a"), S("a "), S("a'"), S("a!")]),
        # numbers
        I(0), I(-1), I(2 ** 53), I(2 ** 53 + 1), I(-(2 ** 64)), I(10 ** 30), D(0.0), D(-0.0), D(0.5), D(-2.25),
        D(2.0 ** 53), D(123456789.0), L([I(1), D(1.0)]), St([D(0.5), I(1), I(-3)]),
        # booleans as elements and keys
        St([M.a_bool(True), M.a_bool(False)]), Mp([M.a_bool(True), M.a_bool(False)], [I(1), I(2)]),
        Mp([S("a"), S("a ")], [I(1), I(2)]),
    ]
    return vals


REP_CASES = [
    # (description, kind, insertion history): equal representatives inserted in both orders
    ("<<1, 1.0>> / <<1.0, 1>>", "set", [M.a_int(1), M.a_dec(1.0)]),
    ("<<0.0, -0.0>> / <<-0.0, 0.0>>", "set", [M.a_dec(0.0), M.a_dec(-0.0)]),
    ("<<[1], [1.0]>> / <<[1.0], [1]>>", "set", [M.a_list([M.a_int(1)]), M.a_list([M.a_dec(1.0)])]),
    ("<<<1 => 'x', 1.0 => 'x'>>> / <<<1.0 => 'x', 1 => 'x'>>>", "map", [M.a_int(1), M.a_dec(1.0)]),
]
MIXED_CASES = [
    # a set of an int, a larger int and a date whose digits sort between them as text
    ("<<2, 10, date('15000101')>>", [M.a_int(2), M.a_int(10), M.mk("date", s=M.cps("15000101000000"))]),
]


def check_rep_cases(cx):
    """sets / maps that receive two equal representatives: which one is kept
    (and so the text) follows the insertion order"""
    im = cx.im
    for desc, kind, hist in REP_CASES:
        texts = []
        for order in (hist, list(reversed(hist))):
            c = V.ValueSet() if kind == "set" else V.ValueMap()
            for x in order:
                if kind == "set":
                    c.addItem(M.build(x, im.refs))
                else:
                    c.addItem(M.build(x, im.refs), V.ValueString("x"))
            texts.append(str(c))
        cx.n_eval += 2
        if texts[0] != texts[1]:
            cx.vio(f"equal-representatives:{desc}", f"construction-order: equal containers render as "
                                                    f"{texts[0]!r} and {texts[1]!r} depending on which equal "
                                                    f"element was inserted first",
                   {"kind": "rep", "desc": desc})
    import itertools
    for desc, items in MIXED_CASES:
        texts = set()
        for p in itertools.permutations(items):
            c = V.ValueSet()
            for x in p:
                c.addItem(M.build(x, im.refs))
            texts.add(str(c))
        cx.n_eval += 6
        if len(texts) != 1:
            cx.vio(f"mixed-kinds:{desc}", f"construction-order: the set {desc} renders as {sorted(texts)} "
                                          f"depending on the insertion order", {"kind": "mixed", "desc": desc})


def check_date_difference(cx):
    """an int must render as an integer numeral: the int that a date
    difference yields"""
    o = cx.im.run("date('20240115') - date('20240101')")
    cx.n_eval += 1
    if o[0] == "val" and o[1].type() == "int":
        txt = str(o[1])
        toks = M.lex(txt)
        if [t for t, _ in toks if t != "operator"] != ["int"]:
            cx.vio("int-numeral:date('20240115') - date('20240101')",
                   f"shape: the int value of date('20240115') - date('20240101') renders as {txt!r}, "
                   f"not an integer numeral", {"kind": "prog", "src": "date('20240115') - date('20240101')"})


def check_identifier_keys(cx):
    """map literals: an identifier in key position stands for the string"""
    for src, want in (("<<<a => 1>>>", "<<<'a' => 1>>>"), ("<<<a => 1, b2 => 'a'>>>", "<<<'a' => 1, 'b2' => 'a'>>>"),
                      ("[<<<x_y => <<<z => 2>>> >>>]", "[<<<'x_y' => <<<'z' => 2>>>>>>]")):
        o = cx.im.run("def a = 99; def z = 98; " + src)
        cx.n_eval += 1
        ow = cx.im.run(want.replace(">>>>>>", ">>> >>>"))
        if o[0] != "val" or ow[0] != "val" or M.vkey(o[1]) != M.vkey(ow[1]):
            cx.vio("identifier-key:" + src, f"literal: {src} evaluates to {o[1] if o[0] == 'val' else o}, "
                                            f"expected the value of {want}", {"kind": "prog", "src": src})


# ------------------------------------------------- numbers made by natives
def number_leaves(w, path=""):
    """the ints and decimals inside what a native returned"""
    if isinstance(w, (V.ValueInt, V.ValueDecimal)):
        yield path, w
    elif isinstance(w, V.ValueList):
        for i, x in enumerate(w.value):
            yield from number_leaves(x, f"{path}[{i}]")
    elif isinstance(w, V.ValueSet):
        for x in w.getSortedItems():
            yield from number_leaves(x, path + "<<>>")
    elif isinstance(w, V.ValueMap):
        for k in w.getSortedKeys():
            yield from number_leaves(k, path + "<<<key>>>")
            yield from number_leaves(w.value[k], f"{path}[{k}]")


def check_made_number(cx, src, w, where=""):
    """a value that says it is an int (a decimal) renders as an integer
    numeral (a numeral with a fractional part), and its text evaluates to a
    value equal to it, of the same type, that renders to the same text -
    whichever native made it.  The verdict goes by the value's own type()."""
    typ = w.type()
    key = (src if len(src) <= 80 else src[:64] + "~" + hashlib.sha1(src.encode()).hexdigest()[:8]) + where
    case = {"kind": "maker", "src": src}
    t = render(w)
    cx.n_eval += 1
    if t[0] != "val":
        cx.vio(f"maker-render:{key}", f"host-exception: rendering the {typ} that {src} returned raised {t[1]}", case)
        return
    txt = t[1]
    try:
        toks = M.lex(txt)
    except Exception as e:  # noqa: BLE001
        toks = [("unscannable", type(e).__name__)]
    kinds = [k for k, _ in toks]
    neg = txt.startswith("-")
    body = txt[1:] if neg else txt
    if typ == "int":
        ok = (kinds == (["operator", "int"] if neg else ["int"]) and toks[-1][1] == body and body.isdigit()
              and body.isascii())
        if not ok:
            cx.vio(f"maker-int-numeral:{key}", f"shape: {src} returned a value of type int{where and ' at ' + where} that "
                                               f"renders as {txt!r} (host payload {type(w.value).__name__}): not an "
                                               f"integer numeral", case)
            return
    else:
        ip, _, fp = body.partition(".")
        ok = (kinds == (["operator", "decimal"] if neg else ["decimal"]) and toks[-1][1] == body
              and ip.isdigit() and fp.isdigit() and ip.isascii() and fp.isascii())
        if not ok:
            cx.vio(f"maker-decimal-numeral:{key}", f"shape: {src} returned a value of type decimal{where and ' at ' + where} "
                                                   f"that renders as {txt!r}: not a numeral with a fractional part", case)
            return
    o = cx.im.run(txt)
    cx.n_eval += 1
    if o[0] != "val":
        cx.vio(f"maker-round-trip:{key}", f"round-trip: the text {txt[:60]!r} of the {typ} that {src} returned does not "
                                          f"evaluate: {o[0]} {str(o[1])[:80]}", case)
        return
    back = o[1]
    same = M.host(lambda: (back.type() == typ, bool(back == w), str(back) == txt))
    if same[0] != "val" or same[1] != (True, True, True):
        cx.vio(f"maker-round-trip:{key}", f"round-trip: the text {txt[:60]!r} of the {typ} that {src} returned evaluates "
                                          f"to {str(back)[:60]} ({back.type()}); same type / equal / same text = "
                                          f"{same[1] if same[0] == 'val' else same}", case)


def maker_source(op, a):
    if op == "find":
        return f"find({M.literal(a)}, {M.literal(a['items'][-1])})"
    return f"{op}({M.literal(a)})"


def check_model_makers(cx, u, res):
    """binding A for ValLaws!Make: every native of MakerOps on every value of
    the universe the model defines it for"""
    rows = {r["i"]: r for r in res.records("MK")}
    if sorted(rows) != list(range(1, u["n"] + 1)):
        raise MachineryError("ValLaws MK export incomplete")
    n = 0
    kinds = {"int": "int", "dec": "decimal"}
    for i in range(1, u["n"] + 1):
        a = u["v"][i]
        for m in rows[i]["mk"]:
            if not m["ok"]:
                continue
            src = maker_source(m["op"], a)
            o = cx.im.run(src)
            cx.n_eval += 1
            n += 1
            if o[0] != "val":
                cx.run.drift("maker-does-not-return", {"src": src, "got": str(o)[:120]})
                continue
            w = o[1]
            if w.type() not in ("int", "decimal"):
                cx.run.drift("maker-kind-differs", {"src": src, "model": m["k"], "impl": w.type()})
                continue
            check_made_number(cx, src, w)
            if w.type() != kinds[m["k"]]:
                cx.run.drift("maker-kind-differs", {"src": src, "model": m["k"], "impl": w.type()})
            elif m["val"]:
                want = M.build(m["v"], cx.im.refs)
                eq = M.host(lambda: bool(want == w))
                if eq != ("val", True):
                    cx.run.drift("maker-result-differs", {"src": src, "model": M.literal(m["v"]), "impl": str(w)[:60]})
                elif str(w) != M.text(m["txt"]) and M.literal(m["v"]) not in ("0.0", "-0.0"):
                    cx.run.drift("maker-text-differs", {"src": src, "model": M.text(m["txt"]), "impl": str(w)[:60]})
    for m in rows[1]["nullary"]:
        src = m["op"] + "()"
        o = cx.im.run(src)
        cx.n_eval += 1
        n += 1
        if o[0] != "val":
            cx.run.drift("maker-does-not-return", {"src": src, "got": str(o)[:120]})
            continue
        if o[1].type() != kinds[m["k"]]:
            cx.run.drift("maker-kind-differs", {"src": src, "model": m["k"], "impl": o[1].type()})
        if o[1].type() in ("int", "decimal"):
            check_made_number(cx, src, o[1])
    return n


# programs whose results hold numbers that natives, operators and the bundled modules manufacture (outside the
# argument universe of the model): every int / decimal in the result is judged by check_made_number
MAKER_PROGRAMS = [
    "timestamp()", "length('abc')", "length([1, 2])", "length(<<<1 => 2>>>)", "length(range(5))", "int('12')",
    "int('-7')", "int(2.5)", "int(-2.5)", "int(TRUE)", "int(date('20240115'))", "decimal('1.5')", "decimal('2')",
    "decimal(TRUE)", "decimal(date('20240115120000'))", "find('abc', 'c')", "find('abc', 'x')", "find([1, 2, 3], 3)",
    "find_last('abcabc', 'c')", "find_last([1, 2, 1], 1)", "count([1, 2, 1], 1)", "count('abab', 'a')",
    "date('20240115') - date('20240101')", "date('20240115120000') - date('20240101')", "date('20240115') - 1.5",
    "7 / 2", "7 / 2.0", "-7 / 2", "7 % 2", "7.5 % 2", "2 * 3", "2 * 3.0", "1 - 3", "1 - 3.5", "div(7, 2)", "mod(7, 2)",
    "bit_and(12, 10)", "bit_or(12, 10)", "bit_xor(12, 10)", "bit_not(12)", "bit_shift_left(1, 31)",
    "bit_shift_right(-1, 1)", "bit_rotate_left(1, 33)", "bit_rotate_right(1, 1)",
    "require Math; [Math->pow(2, 10), Math->pow(2, -1), Math->pow(2.0, 3), Math->pow(2, 0.5)]",
    "require Math; [Math->sqrt(16), Math->exp(0), Math->log(1), Math->PI, Math->E]",
    "require Math; [Math->sin(0), Math->cos(0), Math->atan2(0, 1)]",
    "parse_json('[1, -2, 1.5, 1e2, 1E-2, 12345678901234567890, 0.1, -0.0, 1.0]')", "parse_json('{\"a\": 1, \"b\": 2.0}')",
    "parse('12')", "eval('1 + 2')", "eval('1.5 + 2')", "range(3)", "range(1, 4)", "range(5, 1, -2)", "enumerate(['a', 'b'])",
    "[int(x) for x in [1.0, '2', TRUE, 3]]", "[decimal(x) for x in [1, '2', TRUE, 3.5]]",
    "sum([1, 2, 3])", "sum([1, 2.5])", "sum([])", "sum([1.5, 1.5])", "min([3, 1.5])", "max([3, 1.5])",
    "require List; [List->prod([2, 3]), List->prod([2.0, 3]), List->reduce([1, 2, 3], fn(a, b) a + b)]",
    "require Stat; [Stat->mean([1, 2]), Stat->mean([1, 3]), Stat->median([1, 2]), Stat->median([1, 3, 5]), "
    "Stat->median_low([1, 2]), Stat->median_high([1, 2])]",
    "require Random; Random->set_seed(3); [Random->random(10), Random->random(), Random->random(1000000)]",
    "set_seed(1)", "sign(-2.5)", "sign(0)", "abs(-3)", "abs(-2.5)", "floor(2.5)", "ceiling(2.5)", "round(2.5)", "round(2.567, 2)",
    "round(1234, -2)", "floor(7)", "ceiling(-7)", "floor(9007199254740993)", "ceiling(9007199254740993)",
    "round(9007199254740993)", "decimal(9007199254740993)", "decimal(12345678901234567890123)",
    "round(12345678901234567890)", "int(9007199254740993.0)", "int(1234567890123456789012.0)",
    "1000000 * 1000000 * 1000000", "9007199254740993 + 0.0", "9007199254740993 * 1.0", "9007199254740992 / 1.0",
    "string_length('abc')", "ord('a')", "char_code('a')", "length(split('a b c'))", "length(chunks([1, 2, 3], 2))",
    "process_lines(str_input('a\\nb'), fn(l) 1)", "length(lines('a\\nb'))",
]


def check_maker_programs(cx):
    n = 0
    for src in MAKER_PROGRAMS:
        o = cx.im.run(src)
        cx.n_eval += 1
        if o[0] != "val":
            continue                      # not defined in this build / an error: nothing was made
        for where, w in number_leaves(o[1]):
            check_made_number(cx, src, w, where)
            n += 1
    return n


def check_made_from_magnitudes(cx, xs, ints):
    """the rounding natives on decimals of all magnitudes, decimal() on ints of all magnitudes"""
    n = 0
    for x in xs:
        lit = str(V.ValueDecimal(x))
        for op in ("floor", "ceiling", "round", "int", "abs"):
            o = cx.im.run(f"{op}({lit})")
            cx.n_eval += 1
            if o[0] == "val" and o[1].type() in ("int", "decimal"):
                check_made_number(cx, f"{op}({lit})", o[1])
                n += 1
    for m in ints:
        for op in ("decimal", "floor", "round", "abs"):
            o = cx.im.run(f"{op}({m})")
            cx.n_eval += 1
            if o[0] == "val" and o[1].type() in ("int", "decimal"):
                check_made_number(cx, f"{op}({m})", o[1])
                n += 1
    return n


# -------------------------------------------------------- numbers by Python
def magnitudes(rng, n):
    xs = [0.0, -0.0, 1.0, -1.0, 0.1, 1e16, 1e15, 9999999999999998.0, 1e-5, 1e-4, 0.0001, 1e22, 1e23, 1e100,
          1.7976931348623157e308, 5e-324, 2.2250738585072014e-308, 1e-320, 123456789012345678.0, 1e21,
          -1e16, -1e-5, -2.5e-7, 4.35, 0.30000000000000004, 2.0 ** 53, 2.0 ** 64, 1 / 3]
    for _ in range(n):
        e = rng.uniform(-320, 308)
        m = rng.uniform(1, 10) if rng.random() < 0.7 else float(rng.randint(1, 9))
        try:
            x = m * 10.0 ** e
        except OverflowError:
            continue
        if x != x or math.isinf(x):
            continue
        xs.append(x if rng.random() < 0.7 else -x)
    return xs


def check_decimal(cx, x):
    """shape: one decimal token (digits . digits), optional minus; round trip
    of the exact bits; also inside containers"""
    v = V.ValueDecimal(x)
    txt = str(v)
    key = "decimal " + float(x).hex()
    case = {"kind": "decimal", "hex": float(x).hex()}
    cx.n_eval += 1
    try:
        toks = M.lex(txt)
    except Exception as e:  # noqa: BLE001
        toks = [("unscannable", type(e).__name__)]
    kinds = [t for t, _ in toks]
    neg = txt.startswith("-")
    body = txt[1:] if neg else txt
    ip, _, fp = body.partition(".")
    ok = (kinds == (["operator", "decimal"] if neg else ["decimal"]) and toks[-1][1] == body
          and ip.isdigit() and fp.isdigit() and ip.isascii() and fp.isascii())
    if not ok:
        cx.vio(f"decimal-numeral:{key}", f"shape: the decimal {x!r} renders as {txt!r}, which scans as {toks}: "
                                         f"not a numeral with a fractional part", case)
    for form, wrap in (("", lambda w: w), ("[%s]", lambda w: w.value[0]), ("<<%s>>", lambda w: next(iter(w.value))),
                       ("<<<1 => %s>>>", lambda w: next(iter(w.value.values())))):
        src = (form % txt) if form else txt
        o = cx.im.run(src)
        cx.n_eval += 1
        if o[0] != "val":
            cx.vio(f"decimal-round-trip:{key}", f"round-trip: the text {src[:60]!r} of the decimal {x!r} does not "
                                                f"evaluate: {o[0]} {str(o[1])[:80]}", case)
            break
        try:
            w = wrap(o[1])
        except Exception:  # noqa: BLE001
            w = o[1]
        if not isinstance(w, V.ValueDecimal) or not isinstance(w.value, float) or w.value.hex() != float(x).hex():
            cx.vio(f"decimal-round-trip:{key}", f"round-trip: the text {src[:60]!r} of the decimal {x!r} "
                                                f"evaluates to {str(w)[:60]} ({w.type()})", case)
            break
        if str(o[1]) != src:
            cx.vio(f"decimal-round-trip-text:{key}", f"round-trip: re-evaluated {src[:60]!r} renders as "
                                                     f"{str(o[1])[:60]!r}", case)
            break


def check_int(cx, n):
    v = V.ValueInt(n)
    txt = str(v)
    key = f"int {n}"
    case = {"kind": "int", "n": str(n)}
    cx.n_eval += 1
    toks = M.lex(txt)
    neg = txt.startswith("-")
    body = txt[1:] if neg else txt
    if [t for t, _ in toks] != (["operator", "int"] if neg else ["int"]) or toks[-1][1] != body or not body.isdigit():
        cx.vio(f"int-numeral:{key}", f"shape: the int {n} renders as {txt!r}: not an integer numeral", case)
    o = cx.im.run(txt)
    if o[0] != "val" or not isinstance(o[1], V.ValueInt) or o[1].value != n or isinstance(o[1].value, float) \
            or str(o[1]) != txt:
        cx.vio(f"int-round-trip:{key}", f"round-trip: the text {txt!r} of the int {n} evaluates to "
                                        f"{o[1] if o[0] == 'val' else o}", case)


# ---------------------------------------------------------------- binding B
def data_scalar(rng, kind=None):
    kind = kind or rng.choice(["null", "bool", "int", "int", "dec", "dec", "str", "str", "str", "pat"])
    if kind == "str":
        alpha = M.ALPHA + ['"', "\r", "}", ">", "x", "n", "0"]
        n = rng.choice([0, 1, 1, 2, 3, 4, 6])
        return M.a_str("".join(rng.choice(alpha) for _ in range(n)))
    return M.gen_scalar(rng, kind)


def no_null_keys(a):
    """the generator keeps NULL out of map keys (covered by the fixed cases)"""
    if a["k"] == "map" and any(x["k"] == "null" for x in a["items"]):
        return False
    return all(no_null_keys(x) for x in a["items"]) and all(no_null_keys(x) for x in a["vals"])


def render_event(cx, a, rng):
    im = cx.im
    texts = texts_of_orders(cx, a, rng, 2 if M.depth(a) else 0)
    cx.n_eval += len(texts)
    base = texts[0][1]
    if base[0] != "val":
        cx.vio(f"render:{lit_key(a)} !{base[1]}", f"host-exception: rendering raised {base[1]}", {"kind": "value", "v": a})
        return None
    txt = base[1]
    cons = all(t == base for _, t in texts)
    try:
        toks = M.toks_of(txt)
    except Exception:  # noqa: BLE001
        toks = [{"t": "unscannable", "s": []}]
    e = {"op": "render", "v": a, "toks": toks, "cons": cons, "data": True, "rtok": False, "rt": M.a_null(),
         "same": False, "txt": txt}
    o = im.run(txt)
    cx.n_eval += 1
    if o[0] == "val":
        try:
            e["rt"] = M.to_abs(o[1], im.refs)
            e["rtok"] = True
            e["same"] = str(o[1]) == txt
        except M.Unencodable:
            e["rtok"] = False
    return e


def report_bad(cx, bad, events, meta, prefix):
    """one violation per rejected record, naming every rejected clause"""
    by = {}
    for k, why in bad:
        if why == "wf":
            raise MachineryError(f"harness sent an ill-formed value: {meta[k]}")
        by.setdefault(k, []).append(why)
    for k in sorted(by):
        e = events[k]
        cx.vio(f"{prefix}:{meta[k]}", f"{by[k][0]}: the text {e['txt'][:60]!r} "
                                      f"of {meta[k]} scanned as {_toks(e['toks'])[:160]}, re-evaluated "
                                      f"ok={e['rtok']} same text={e['same']} one text over construction "
                                      f"orders={e['cons']}: rejected by Val_Trace at {by[k]}",
               {"kind": "trace", "events": [e], "meta": [meta[k]]})


def inexact_big_decimal(a):
    """a decimal >= 10^8 whose shortest host digits are not its exact digits
    (more than ~16 significant digits): its numeral is the host's shortest
    round-tripping one, which the model does not describe"""
    if a["k"] == "dec" and a["n"][1] == 0:
        x = M.float_of(a)
        from decimal import Decimal
        return int(Decimal(repr(x))) != int(x)
    return any(inexact_big_decimal(x) for x in a["items"]) or any(inexact_big_decimal(x) for x in a["vals"])


def binding_b(cx, rng, nvals):
    events, meta = [], []
    for _ in range(nvals):
        a = M.gen_value(rng, rng.choice([0, 1, 2, 2, 3]), elem=data_scalar)
        if not M.is_data(a) or not no_null_keys(a) or inexact_big_decimal(a):
            continue
        e = render_event(cx, a, rng)
        if e:
            events.append(e)
            meta.append(lit_key(a))
    report_bad(cx, M.validate(cx.run, events, "Val_Trace validation of recorded texts, tokens and "
                                               "re-evaluated values"), events, meta, "trace")
    return events


def run(run):
    quick = run.tier == "quick"
    rng = random.Random(run.seed)
    cx = Ctx(run)
    res_u = run_tlc("ValLaws", "ValLaws_c08_quick" if quick else "ValLaws_c08_thorough", coverage=False, timeout=3000)
    u = M.load_universe(run, None, "ValLaws: text form laws over the universe, the quote/scan machine and the "
                                   "natives that make numbers", res_u)
    n = u["n"]
    seen_txt = {}
    nvals = 0
    for i in range(1, n + 1):
        a = u["v"][i]
        if a["k"] == "ref":
            continue
        txt = check_value(cx, a, u["txt"][i], u["toks"][i], u["os"][i], rng)
        nvals += 1
        if txt is None:
            continue
        # values of the universe with one model text are one value in other insertion orders
        mt = M.text(u["txt"][i])
        if mt in seen_txt and seen_txt[mt][1] != txt:
            cx.vio(f"construction-order:{lit_key(a)} / {seen_txt[mt][0]}",
                   f"construction-order: {lit_key(a)} renders as {txt!r}, {seen_txt[mt][0]} as "
                   f"{seen_txt[mt][1]!r}; they are the same value", {"kind": "value", "v": a})
        seen_txt.setdefault(mt, (lit_key(a), txt))
    k = next(i for i in range(1, n + 1) if u["v"][i]["k"] == "map" and len(u["v"][i]["items"]) == 2)
    run.sample({"VALUE": {"built": M.literal(u["v"][k]), "text": M.text(u["txt"][k]),
                          "tokens": _toks(u["toks"][k])}})

    # fixed cases: judged by the trace spec (tokens, round trip), like binding B
    fx = fixed_cases()
    events, meta = [], []
    for a in fx:
        e = render_event(cx, a, rng)
        if e:
            events.append(e)
            meta.append(lit_key(a))
    report_bad(cx, M.validate(run, events, "Val_Trace validation of the fixed adversarial values"),
               events, meta, "fixed")
    check_rep_cases(cx)
    check_date_difference(cx)
    check_identifier_keys(cx)

    xs = magnitudes(rng, 400 if quick else 20000)
    for x in xs:
        check_decimal(cx, x)
    ints = [0, 1, -1, 999999, 10 ** 6 + 1, 12345678, -(10 ** 7), 2 ** 31, 2 ** 53 + 1, 2 ** 64, -(2 ** 64) - 1, 10 ** 40]
    ints += [rng.randint(-10 ** rng.randint(1, 40), 10 ** rng.randint(1, 40)) for _ in range(200 if quick else 5000)]
    for m in ints:
        check_int(cx, m)
    run.sample({"DECIMAL": {"value": repr(xs[5]), "text": str(V.ValueDecimal(xs[5]))[:40]}})

    # numbers that natives make: the model's Make table, programs outside it, all magnitudes
    n_mk = check_model_makers(cx, u, res_u)
    n_mp = check_maker_programs(cx)
    n_mm = check_made_from_magnitudes(cx, xs if quick else xs[:4000], ints if quick else ints[:2000])
    run.sample({"MAKER": {"src": "floor(2.5)", "model": "VDec(2, 1) -> 2.0", "impl": str(cx.im.run("floor(2.5)")[1])}})

    evs = binding_b(cx, rng, 1200 if quick else 40000)
    if evs:
        e = evs[len(evs) // 2]
        run.sample({"TRACE": {"v": M.literal(e["v"]), "toks": _toks(e["toks"])[:200], "rtok": e["rtok"],
                              "same": e["same"], "cons": e["cons"]}})
    total = nvals + len(fx) + len(xs) + len(ints) + len(evs) + len(REP_CASES) + len(MIXED_CASES) + n_mk + n_mp + n_mm
    run.cov["traces_validated_against_impl"] = total
    run.cov["evaluations"] = cx.n_eval + cx.im.n
    run.cov["distinct_nontrivial"] = total
    run.cov["rule"] = ("binding A: one case per value of the ValLaws universe (each built in up to 8 insertion "
                       "orders, by constructors and by literals); fixed adversarial values; one per decimal / int "
                       "magnitude; binding B: one per random data value whose record Val_Trace accepted")
    run.cov["exhaustive"] = True
    run.cov["universe"] = n
    run.cov["bounds"] = {"universe": n, "fixed": len(fx), "decimals": len(xs), "ints": len(ints),
                         "random_values": len(evs), "model_maker_calls": n_mk, "maker_program_numbers": n_mp,
                         "maker_calls_on_magnitudes": n_mm}
    run.assumptions += [
        "blanks outside string and pattern literals are not compared (recorded as drift when they differ)",
        "the enumeration order of a set / map with elements of different kinds (or of patterns, sets, maps) is not "
        "named by the statement: for those values the tokens are compared as a multiset",
        "decimals across all magnitudes: TLA+ does not model the host's float-to-text conversion; the model states "
        "the shape (one decimal token, optional minus) and the round trip, magnitudes 5e-324 .. 1.8e308 and +-0.0 "
        "are driven from Python and judged with the real scanner; inf and nan are out of scope (reachable only "
        "through overflow)",
        "the random generator keeps NULL out of map keys and draws pattern payloads without `/`: those are covered "
        "by the fixed cases",
        "decimals >= 10^8 whose exact digits differ from the host's shortest digits (more than 16 significant "
        "digits) are not sent to the model; they go through the Python-driven magnitude check",
        "dates are not data values: only (i) and (ii) are compared for them",
        "numbers made by natives are judged by their own type(): int -> integer numeral, decimal -> numeral with a "
        "fraction, and the round trip of the text; a result whose kind or value differs from ValLaws!Make is drift "
        "(what a native computes is not C08's subject)",
    ]


def replay(run, case):
    cx = Ctx(run)
    rng = random.Random(run.seed)
    k = case["kind"]
    if k == "value":
        a = case["v"]
        e = render_event(cx, a, rng)
        if e:
            e["data"] = M.is_data(a)
            for kk, why in M.validate(run, [e], "replay"):
                run.violation(f"replay:{lit_key(a)} @{why}", f"{why}: rejected by Val_Trace", case)
    elif k == "trace":
        evs = []
        for e in case["events"]:
            ne = render_event(cx, e["v"], rng)
            if ne:
                evs.append(ne)
        for kk, why in M.validate(run, evs, "replay"):
            run.violation(f"replay:{case['meta'][kk]} @{why}", f"{why}: rejected by Val_Trace", case)
    elif k in ("rep", "mixed"):
        check_rep_cases(cx)
    elif k == "decimal":
        check_decimal(cx, float.fromhex(case["hex"]))
    elif k == "int":
        check_int(cx, int(case["n"]))
    elif k == "prog":
        check_date_difference(cx)
        check_identifier_keys(cx)
    elif k == "maker":
        o = cx.im.run(case["src"])
        if o[0] == "val":
            for where, w in number_leaves(o[1]):
                check_made_number(cx, case["src"], w, where)
