"""C08 - rendering is canonical and data literals round-trip through print and parse.

Spec: spec/Val.tla (Render, Tokens, Norm, Escape, ScanStr quoted from the
statement), spec/ValLaws.tla (the text depends only on the value and
determines it, numeral and string shapes, quote/scan round trip of every
string over an alphabet around the quote and the escapes - checked by TLC),
spec/Val_Trace.tla.

Binding A: TLC exports the universe with the text and the token sequence of
every value.  Each value is built in the implementation in several insertion
orders (constructors and literals); compared are (i) that all of them give
one text, (ii) the shape of that text - the tokens the real scanner delivers
against the predicted ones (int numeral / decimal numeral with a fraction /
string token whose payload is the string), and the text itself up to blanks
outside literals, (iii) for data values that evaluating the text gives the
same value, of the same type, rendering to the same text.
Binding B: random data values to depth 3 with adversarial strings, recorded
with the scanner's tokens and the re-evaluated value, validated by TLC
against Val_Trace; decimals and ints of all magnitudes are driven from Python
(shape by the real scanner: one decimal / int token, optional minus; exact
round trip of the bits).

Round 3: (a) the paths by which a PROGRAM obtains the text (ValLaws!RenderVia: string(v), '' + v, s('{v}'), join,
print / println, element of a list) are observed beside str(value) for every value the check renders - universe,
magnitudes, numbers made by natives, random values, object histories; (b) spec/ValText.tla "pat": pattern payloads
grown over an alphabet around the delimiter - which payloads the syntax can express, that exactly those round-trip;
(c) spec/ValText.tla "hist": an outer container and an inner object it holds by reference are driven through every
mutator of the language (methods of the value classes and the direct writes of index / compound assignment), on
both objects; a tour through all transitions on one pair of implementation objects, rendered / ordered / hashed
after every step and compared with a freshly evaluated literal; (d) the symptom of each known finding is pinned
(KNOWN_SYMPTOMS); (e) ints beyond the number of digits the host converts in one piece.
"""
import hashlib
import json
import math
import random
import re

from .common import MachineryError
from .tla import run_tlc
from . import valmodel as M
from .valmodel import V
from .c06 import Ctx, build_universe, lit_key


def render(v):
    return M.host(lambda: str(v))


def roundtrip(cx, a, txt, what, case, key):
    """(iii): evaluating the text gives the same value, type and text"""
    o = cx.im.run(txt)
    cx.n_eval += 1
    if o[0] != "val":
        cx.vio(f"round-trip:{key}", f"round-trip: the text {txt!r} of {what} does not evaluate: "
                                    f"{o[0]} {str(o[1])[:100]}", case)
        return None
    w = o[1]
    if M.vkey(w, cx.im.refs) != M.akey(a):
        if w.type() != M.build(a, cx.im.refs).type():
            cx.vio(f"round-trip-type:{key}", f"round-trip: the text {txt!r} of {what} evaluates to a "
                                             f"{w.type()}", case)
        else:
            cx.vio(f"round-trip-value:{key}", f"round-trip: the text {txt!r} of {what} evaluates to {w}, "
                                              f"another value", case)
        return w
    t2 = render(w)
    if t2[0] != "val" or t2[1] != txt:
        cx.vio(f"round-trip-text:{key}", f"round-trip: the re-evaluated value of {txt!r} renders as "
                                         f"{t2[1]!r}", case)
    return w


def texts_of_orders(cx, a, rng, nrand):
    """the texts of the value built in several insertion orders"""
    im = cx.im
    out = []
    variants = [a] + M.perms_of(a, rng, 5) + [M.deep_reorder(rng, a) for _ in range(nrand)]
    for b in variants:
        t = render(M.build(b, im.refs))
        out.append((lit_key(b) + " (constructors)", t))
        # string(x) converts scalars (a string to itself, NULL to ''): the text form is taken inside a list
        o = im.run("string([%s])" % M.literal(b))
        cx.n_eval += 1
        if o[0] == "val":
            out.append((lit_key(b) + " (literal)", ("val", o[1].value[1:-1])))
        else:
            out.append((lit_key(b) + " (literal)", ("host", o[0], str(o[1]))))
    return out


def check_value(cx, a, want_txt, want_toks, order_stated, rng, nrand=2):
    key = lit_key(a)
    case = {"kind": "value", "v": a}
    texts = texts_of_orders(cx, a, rng, nrand if M.depth(a) else 0)
    cx.n_eval += len(texts)
    base = texts[0][1]
    if base[0] != "val":
        cx.vio(f"render:{key} !{base[1]}", f"host-exception: rendering {key} raised {base[1]}", case)
        return None
    txt = base[1]
    for how, t in texts[1:]:
        if t != base:
            cx.vio(f"construction-order:{key}", f"construction-order: {key} renders as {txt!r} but built as "
                                                f"{how} as {t[1]!r}", case)
            break
    # (ii) the shape
    try:
        got_toks = M.toks_of(txt)
    except Exception as e:  # noqa: BLE001
        got_toks = None
        cx.vio(f"lex:{key}", f"shape: the text {txt!r} of {key} cannot be scanned: {type(e).__name__}", case)
    if want_txt is not None:
        wt = M.text(want_txt)
        if order_stated:
            if got_toks is not None and got_toks != want_toks:
                cx.vio(f"tokens:{key}", f"shape: the text {txt!r} of {key} scans as "
                                        f"{_toks(got_toks)}, expected {_toks(want_toks)}", case)
            elif txt != wt:
                if M.strip_outside_space(txt) == M.strip_outside_space(wt):
                    cx.run.drift("blanks-outside-literals", {"impl": txt, "model": wt})
                else:
                    cx.vio(f"text:{key}", f"shape: {key} renders as {txt!r}, expected {wt!r} (quoting / "
                                          f"escaping / numerals)", case)
        elif got_toks is not None:
            srt = lambda ts: sorted((t["t"], tuple(t["s"])) for t in ts)  # noqa: E731
            if srt(got_toks) != srt(want_toks):
                cx.vio(f"tokens:{key}", f"shape: the text {txt!r} of {key} scans as {_toks(got_toks)}, "
                                        f"expected (in some order) {_toks(want_toks)}", case)
            elif got_toks != want_toks:
                cx.run.drift("enumeration-order-not-named-by-the-statement", {"impl": txt, "model": wt})
    if M.is_data(a):
        roundtrip(cx, a, txt, key, case, key)
    return txt


def _toks(ts):
    return " ".join(f"{t['t']}:{M.text(t['s'])!r}" for t in ts)


def short(s, n=80):
    """a key part of bounded length (long texts are cut and carry a hash)"""
    s = str(s)
    return s if len(s) <= n else s[:n - 16] + "~" + hashlib.sha1(s.encode("utf-8", "replace")).hexdigest()[:8]


# ------------------------------------------ the paths by which a program gets the text
# ValLaws!RenderObservers: the statement observes "str(value) / string(v)".  str(value) is the renderer
# (__repr__); a program obtains the text of a value through the conversion (asString) of its class instead:
# string(v), concatenation with a string, interpolation, join, print.  The value is handed over as `cv`.
PATHS_ANY = ["string", "interp", "join", "print", "println", "elem"]
PATHS_ATOMIC = ["string", "interp", "join", "print", "println", "elem", "concat", "concat-left"]
_PATH_SRC = {
    "string": "string(cv)", "interp": "s('{cv}')", "join": "join([cv], '')",
    "print": "do def o_ = c08io->str_output(); print(cv, o_); c08io->get_output_string(o_) end",
    "println": "do def o_ = c08io->str_output(); println(cv, o_); c08io->get_output_string(o_) end",
    "elem": "string([cv])", "concat": "'' + cv", "concat-left": "cv + ''",
}
PATH_SHOWN = {"string": "string(v)", "interp": "s('{v}')", "join": "join([v], '')", "print": "print(v, out)",
              "println": "println(v, out)", "elem": "string([v]) without the brackets", "concat": "'' + v",
              "concat-left": "v + ''"}
# the kinds whose conversion IS the text form (ValLaws!RenderStated); a string converts to itself, NULL to '',
# a pattern to its payload (documented): those are compared with the model as drift only
STATED_TYPES = ("boolean", "int", "decimal", "date", "list", "set", "map")
ATOMIC_TYPES = ("boolean", "int", "decimal", "date", "string", "pattern")


def text_paths(cx, v, name=None):
    """{observer: text | ('fail', why)}: the text of v by every path of ValLaws!RenderObservers that is defined
    for its kind, taken from the interpreter (one program).  name: the value is already bound to that name."""
    im = cx.im
    if not getattr(cx, "_c08io", False):
        # the observers as functions of the language (parsed once)
        im.run("require IO as c08io")
        for fname, ps in (("c08_paths_any", PATHS_ANY), ("c08_paths_atomic", PATHS_ATOMIC)):
            o = im.run(f"def {fname}(cv) [" + ", ".join(_PATH_SRC[p] for p in ps) + "]")
            if o[0] != "val":
                raise MachineryError(f"cannot define the observers: {o}")
        cx._c08io = True
    if name is None:
        im.put("cv", v)
        name = "cv"
    typ = M.host(lambda: v.type())
    atomic = typ[0] == "val" and typ[1] in ATOMIC_TYPES
    paths = PATHS_ATOMIC if atomic else PATHS_ANY
    o = im.run(f"{'c08_paths_atomic' if atomic else 'c08_paths_any'}({name})")
    cx.n_eval += len(paths)
    out = {}
    if o[0] == "val" and isinstance(o[1], V.ValueList) and len(o[1].value) == len(paths):
        got = o[1].value
    else:                               # one path failed: take them one by one
        got = []
        for p in paths:
            oo = im.run(_PATH_SRC[p].replace("cv", name))
            got.append(oo[1] if oo[0] == "val" else ("fail", f"{oo[0]} {str(oo[1])[:80]}"))
    for p, g in zip(paths, got):
        if isinstance(g, V.ValueString):
            t = g.value
            if p == "elem":
                t = t[1:-1] if t.startswith("[") and t.endswith("]") else ("fail", "string([v]) is " + t[:40])
            elif p == "println":
                t = t[:-1] if t.endswith("\n") else ("fail", "println wrote no line end: " + t[-20:])
            out[p] = t
        else:
            out[p] = g if isinstance(g, tuple) else ("fail", "not a string: " + str(g)[:40])
    return out


def check_text_paths(cx, v, what, key, case, txt=None, name=None):
    """every path gives THE text form (that of str(value)) for the kinds whose conversion is the text form"""
    typ = M.host(lambda: v.type())
    if typ[0] != "val" or typ[1] not in STATED_TYPES:
        return {}
    if txt is None:
        t = render(v)
        if t[0] != "val":
            return {}
        txt = t[1]
    got = text_paths(cx, v, name)
    other = []
    for p in sorted(got):
        g = got[p]
        if isinstance(g, tuple):
            cx.run.drift("text-path-gives-no-text", {"path": p, "of": what[:60], "got": g[1]})
        elif g != txt:
            other.append((p, g))
    if other:
        p, g = other[0]
        cx.vio(f"text-path:{key}", f"text-path: {PATH_SHOWN[p]} of {what} is {short(g, 60)!r}, but the text form "
                                   f"str(value) is {short(txt, 60)!r}: two texts of one value (paths that differ: "
                                   f"{', '.join(PATH_SHOWN[q] for q, _ in other)})", case)
    return got


def check_model_paths(cx, u, res):
    """binding A for ValLaws!RenderVia: every observer on every value of the universe"""
    rows = {r["i"]: r for r in res.records("VIA")}
    if sorted(rows) != list(range(1, u["n"] + 1)):
        raise MachineryError("ValLaws VIA export incomplete")
    n = 0
    for i in range(1, u["n"] + 1):
        a = u["v"][i]
        via = {m["ob"]: m for m in rows[i]["via"] if m["ok"]}
        if not via:
            continue
        v = M.build(a, cx.im.refs)
        t = render(v)
        if t[0] != "val":
            continue
        got = text_paths(cx, v)
        key = lit_key(a)
        other = []
        for ob, m in sorted(via.items()):
            if ob not in got:
                continue
            n += 1
            g, want = got[ob], M.text(m["txt"])
            if ob == "println":
                want = want[:-1]
            if isinstance(g, tuple):
                cx.run.drift("text-path-gives-no-text", {"path": ob, "of": key, "got": g[1]})
            elif m["stated"]:
                # judged against the renderer of the implementation (the model text of a set with an unstated
                # enumeration order may differ from it; check_value deals with the renderer itself)
                if g != t[1]:
                    other.append((ob, g))
            elif g != want:
                cx.run.drift("conversion-differs-from-model", {"path": ob, "of": key, "impl": g[:60], "model": want[:60]})
        if other:
            ob, g = other[0]
            cx.vio(f"text-path:{key}", f"text-path: {PATH_SHOWN[ob]} of {key} is {g[:60]!r}, but the text form "
                                       f"str(value) is {t[1][:60]!r}: two texts of one value (paths that differ: "
                                       f"{', '.join(PATH_SHOWN[q] for q, _ in other)})", {"kind": "paths", "v": a})
    return n


# ------------------------------------------------------------- fixed cases
def fixed_cases():
    """values and construction histories outside what the random generator
    draws, each reported under a fixed key"""
    I, D, S, L, St, Mp, P, N = M.a_int, M.a_dec, M.a_str, M.a_list, M.a_set, M.a_map, M.a_pat, M.a_null
    vals = [
        # patterns whose payload interferes with the // delimiters
        P("a//b"), P("/a"), P("a/"), P(""), L([P("x//")]),
        # ... and payloads holding `/` or a backslash that the syntax CAN express
        P("a/b"), P("a\\/b"), P("\\d+/\\d+"), P("^/usr/(bin|lib)$"), P("\\\\"), P("a'b"), P("a b"),
        P("#x"), P("a/b/c"), P("<</>>"), L([P("1/2"), P("1")]), Mp([I(1)], [P("x/y")]), St([P("a/b"), P("a")]),
        Mp([P("k/1")], [L([P("v/1")])]),
        # NULL as a map key
        Mp([N()], [I(1)]), Mp([I(1), N()], [I(2), N()]), L([Mp([N()], [S("a")])]),
        # nested brackets
        St([St([])]), St([St([St([])])]), St([Mp([], [])]), Mp([St([])], [St([])]), Mp([I(1)], [St([I(1)])]),
        St([St([I(1)]), St([I(2)])]), St([Mp([S("a")], [I(1)])]), Mp([Mp([], [])], [I(1)]),
        L([St([St([S("<")])])]), St([S("<"), S(">")]), St([I(-1)]), Mp([I(-1)], [D(-0.5)]),
        # strings
        S("'"), S("\\"), S("\\'"), S("\\n"), S("\n\r\t"), S("#"), S("//"), S("a//b"), S("{x}"), S("<<>>"),
        S("é€"), S("\\x41"), S('"'), S("a\\"), S(" "), S(""), S("\x00"), S("\x0b\x0c"), S(" "),
        L([S("'"), S("\\"), S("\n")]), Mp([S("'")], [S("\\")]), St([S("a"), S("a "), S("a'"), S("a!")]),
        # text that is not in a Unicode normal form (a letter and a combining mark, compatibility characters,
        # marks out of canonical order): a string is its code points, the text reads back as the same code points
        S("e\u0301"), S("\u212b"), S("\u2126"), S("\uf900"), S("a\u0327\u0301"), S("a\u0301\u0327"), S("\u1e9b\u0323"),
        L([S("e\u0301"), S("\u00e9")]), St([S("e\u0301"), S("\u00e9")]), Mp([S("\u212b"), S("\u00c5")], [S("\u2126"), S("\u03a9")]),
        # numbers
        I(0), I(-1), I(2 ** 53), I(2 ** 53 + 1), I(-(2 ** 64)), I(10 ** 30), D(0.0), D(-0.0), D(0.5), D(-2.25),
        D(2.0 ** 53), D(123456789.0), L([I(1), D(1.0)]), St([D(0.5), I(1), I(-3)]),
        # booleans as elements and keys
        St([M.a_bool(True), M.a_bool(False)]), Mp([M.a_bool(True), M.a_bool(False)], [I(1), I(2)]),
        Mp([S("a"), S("a ")], [I(1), I(2)]),
    ]
    return vals


REP_CASES = [
    # (description, kind, insertion history): equal representatives inserted in both orders
    ("<<1, 1.0>> / <<1.0, 1>>", "set", [M.a_int(1), M.a_dec(1.0)]),
    ("<<0.0, -0.0>> / <<-0.0, 0.0>>", "set", [M.a_dec(0.0), M.a_dec(-0.0)]),
    ("<<[1], [1.0]>> / <<[1.0], [1]>>", "set", [M.a_list([M.a_int(1)]), M.a_list([M.a_dec(1.0)])]),
    ("<<<1 => 'x', 1.0 => 'x'>>> / <<<1.0 => 'x', 1 => 'x'>>>", "map", [M.a_int(1), M.a_dec(1.0)]),
]
MIXED_CASES = [
    # a set of an int, a larger int and a date whose digits sort between them as text
    ("<<2, 10, date('15000101')>>", [M.a_int(2), M.a_int(10), M.mk("date", s=M.cps("15000101000000"))]),
]


# the text of a value depends on the value only - not on whether an earlier rendering of the same object was
# interrupted (a member whose _str_ failed and was removed since; a rendering begun when the stack was almost used up)
INTERRUPTED = [
    ("def o = <*_str_ = fn(self) error 'x'*>; def c = [1, o, 'a']; do string(c) catch all 0 end; delete_at(c, 1)", "[1, 'a']"),
    ("def o = <*_str_ = fn(self) error 'x'*>; def c = <<<1 => o, 2 => 'b'>>>; do string(c) catch all 0 end; remove(c, 1)", "<<<2 => 'b'>>>"),
    ("def o = <*_str_ = fn(self) error 'x'*>; def c = <<1, o>>; do string(c) catch all 0 end; remove(c, o)", "<<1>>"),
    ("def o = <*_str_ = fn(self) error 'x'*>; def c = [[o], <<2>>]; do string(c) catch all 0 end; delete_at(c[0], 0)", "[[], <<2>>]"),
    ("def c = [1, [2, 3], <<<'k' => [4]>>>]; def f(n) if n == 0 then string(c) else f(n - 1); "
     "for d in [50, 100, 150, 200, 300, 400, 600, 900] do do f(d) catch all 0 end end", "[1, [2, 3], <<<'k' => [4]>>>]"),
]


def check_interrupted(cx):
    n = 0
    for history, fresh in INTERRUPTED:
        o = cx.im.run(f"do {history}; [string(c), string({fresh}), c == {fresh}] end")
        n += 1
        cx.n_eval += 1
        if o[0] != "val" or str(o[1]) != str(cx.im.run(f"[string({fresh}), string({fresh}), TRUE]")[1]):
            cx.run.violation("interrupted:" + history[:80],
                             f"text-depends-on-history: after {history}, [string(c), string({fresh}), c == {fresh}] is "
                             f"{str(o[1])[:120] if o[0] == 'val' else o[:2]}", {"kind": "interrupted"})
    return n


def check_rep_cases(cx):
    """sets / maps that receive two equal representatives: which one is kept
    (and so the text) follows the insertion order"""
    im = cx.im
    for desc, kind, hist in REP_CASES:
        texts = []
        for order in (hist, list(reversed(hist))):
            c = V.ValueSet() if kind == "set" else V.ValueMap()
            for x in order:
                if kind == "set":
                    c.addItem(M.build(x, im.refs))
                else:
                    c.addItem(M.build(x, im.refs), V.ValueString("x"))
            texts.append(str(c))
        cx.n_eval += 2
        if texts[0] != texts[1]:
            what = (f"construction-order: equal containers render as {texts[0]!r} and {texts[1]!r} depending on which "
                    f"equal element was inserted first")
            cx.vio(f"equal-representatives:{desc}", what, {"kind": "rep", "desc": desc})
            same_symptom(cx, f"equal-representatives:{desc}", texts, [], what, {"kind": "rep", "desc": desc})
    import itertools
    for desc, items in MIXED_CASES:
        texts = set()
        for p in itertools.permutations(items):
            c = V.ValueSet()
            for x in p:
                c.addItem(M.build(x, im.refs))
            texts.add(str(c))
        cx.n_eval += 6
        if len(texts) != 1:
            cx.vio(f"mixed-kinds:{desc}", f"construction-order: the set {desc} renders as {sorted(texts)} "
                                          f"depending on the insertion order", {"kind": "mixed", "desc": desc})


def check_date_difference(cx):
    """an int must render as an integer numeral: the int that a date
    difference yields"""
    o = cx.im.run("date('20240115') - date('20240101')")
    cx.n_eval += 1
    if o[0] == "val" and o[1].type() == "int":
        txt = str(o[1])
        toks = M.lex(txt)
        if [t for t, _ in toks if t != "operator"] != ["int"]:
            cx.vio("int-numeral:date('20240115') - date('20240101')",
                   f"shape: the int value of date('20240115') - date('20240101') renders as {txt!r}, "
                   f"not an integer numeral", {"kind": "prog", "src": "date('20240115') - date('20240101')"})


def check_identifier_keys(cx):
    """map literals: an identifier in key position stands for the string"""
    for src, want in (("<<<a => 1>>>", "<<<'a' => 1>>>"), ("<<<a => 1, b2 => 'a'>>>", "<<<'a' => 1, 'b2' => 'a'>>>"),
                      ("[<<<x_y => <<<z => 2>>> >>>]", "[<<<'x_y' => <<<'z' => 2>>>>>>]")):
        o = cx.im.run("def a = 99; def z = 98; " + src)
        cx.n_eval += 1
        ow = cx.im.run(want.replace(">>>>>>", ">>> >>>"))
        if o[0] != "val" or ow[0] != "val" or M.vkey(o[1]) != M.vkey(ow[1]):
            cx.vio("identifier-key:" + src, f"literal: {src} evaluates to {o[1] if o[0] == 'val' else o}, "
                                            f"expected the value of {want}", {"kind": "prog", "src": src})


# ------------------------------------------------- ValText: patterns (binding A)
def check_patterns(cx, res):
    """every payload TLC grew (mode "pat"): the pattern value is built by the constructor, by pattern('...') and -
    where the model says the syntax can express it - by the literal; one text; for the expressible payloads the
    text evaluates back to the pattern, alone and inside a list, a set and a map.  The payloads the syntax cannot
    express (ValText!PatWritable fails: empty, `/` at an end, `//` inside) are the class of the known findings;
    they are counted, and what the scanner makes of them is compared with ValText!ScanPat as drift."""
    im = cx.im
    rows = {}
    for r in res.records("PAT"):
        rows.setdefault(M.text(r["p"]), r)
    if not rows:
        raise MachineryError("ValText exported no pattern payloads")
    stats = {"payloads": len(rows), "values": 0, "writable": 0, "unwritable_fail_as_modelled": 0}
    for p in sorted(rows):
        r = rows[p]
        made = M.host(lambda: V.ValuePattern(p))
        if made[0] != "val":
            continue                                   # not a regular expression: no such pattern value
        v = made[1]
        stats["values"] += 1
        a = M.a_pat(p)
        key = f"pattern({M.quote(p)})"
        case = {"kind": "pattern", "p": p}
        t = render(v)
        cx.n_eval += 1
        if t[0] != "val":
            cx.vio(f"render:{key} !{t[1]}", f"host-exception: rendering {key} raised {t[1]}", case)
            continue
        txt = t[1]
        # one text whatever built the value
        o = im.run(f"string([pattern({M.quote(p)})])")
        cx.n_eval += 1
        if o[0] == "val" and isinstance(o[1], V.ValueString) and o[1].value[1:-1] != txt:
            cx.vio(f"construction-order:{key}", f"construction-order: {key} renders as {txt!r} built by the constructor "
                                                f"and as {o[1].value[1:-1]!r} built by pattern()", case)
        if txt != M.text(r["txt"]):
            cx.run.drift("pattern-text-differs-from-model", {"p": p, "impl": txt, "model": M.text(r["txt"])})
        # the scanner on the text (ValText!ScanPat): drift only - the scanner is C01's subject
        try:
            toks = M.lex(txt)
        except Exception as e:  # noqa: BLE001
            toks = [("unscannable", type(e).__name__)]
        if r["used"] and (toks[0][0] != "pattern" or toks[0][1] != M.text(r["txt"])[:r["used"]]):
            cx.run.drift("pattern-scan-differs-from-model", {"p": p, "impl": str(toks[:2]), "model_used": r["used"]})
        forms = [("%s", lambda w: w), ("[%s]", lambda w: w.value[0]), ("<<%s>>", lambda w: next(iter(w.value))),
                 ("<<<1 => %s>>>", lambda w: next(iter(w.value.values()))), ("[%s, 1]", lambda w: w.value[0])]
        failed = None
        for form, wrap in forms:
            src = form % txt
            o = im.run(src)
            cx.n_eval += 1
            if o[0] != "val":
                failed = f"the text {src!r} does not evaluate: {o[0]} {str(o[1])[:60]}"
            else:
                got = M.host(lambda: (lambda w: (isinstance(w, V.ValuePattern), w.value == p))(wrap(o[1])))
                if got != ("val", (True, True)):
                    failed = f"the text {src!r} evaluates to {str(o[1])[:40]} ({o[1].type()}), not the pattern"
                elif str(o[1]) != src:
                    failed = f"the value of {src!r} renders as {str(o[1])[:40]!r}"
            if failed:
                break
        if r["w"]:
            stats["writable"] += 1
            if failed:
                cx.vio(f"pattern-round-trip:{key}", f"round-trip: {key}: {failed}", case)
            # the literal itself
            o = im.run("//" + p + "//")
            cx.n_eval += 1
            if o[0] != "val" or M.vkey(o[1]) != M.akey(a):
                cx.run.drift("pattern-literal-does-not-give-the-payload", {"p": p, "got": str(o[1])[:40]})
            elif str(o[1]) != txt:
                cx.vio(f"construction-order:{key}", f"construction-order: {key} renders as {txt!r} built by the "
                                                    f"constructor and as {str(o[1])!r} written as a literal", case)
        elif failed:
            stats["unwritable_fail_as_modelled"] += 1
        else:
            cx.run.drift("unwritable-pattern-round-trips", {"p": p, "text": txt})
    return stats


# ------------------------------------------- ValText: object histories (binding A)
def is_inn(a):
    return a["k"] == "ref" and a["n"][0] == 9


def hist_literal(a):
    """source text of a model value of ValText; the place holder of the inner object is the variable hn"""
    if is_inn(a):
        return "hn"
    k = a["k"]
    if k == "list":
        return "[" + ", ".join(hist_literal(x) for x in a["items"]) + "]"
    if k == "set" and a["items"]:
        return "<< " + ", ".join(hist_literal(x) for x in a["items"]) + " >>"
    if k == "map" and a["items"]:
        return "<<< " + ", ".join(hist_literal(x) + " => " + hist_literal(y)
                                  for x, y in zip(a["items"], a["vals"])) + " >>>"
    return M.literal(a)


def hist_step_src(e):
    var = "ho" if e["who"] == "outer" else "hn"
    pre = e["pre"]["o"] if e["who"] == "outer" else e["pre"]["n"]
    kind, op, i = pre["k"], e["op"], e["i"]
    x, y = hist_literal(e["x"]), hist_literal(e["y"])
    if op == "append":
        return f"append({var}, {x})"
    if op == "put":
        return f"put({var}, {x}, {y})"
    if op == "remove":
        return f"remove({var}, {x})"
    if op == "insert":
        return f"insert_at({var}, {i}, {x})"
    if op == "delete":
        return f"delete_at({var}, {i})"
    if op == "assign":
        return f"{var}[{x}] = {y}" if kind == "map" else f"{var}[{i}] = {x}"
    if op == "addassign":
        return f"{var}[{x}] += 1" if kind == "map" else f"{var}[{i}] += 1"
    raise MachineryError("ValText: unknown step " + op)


# what a program may do with a value between two changes: everything here reads (renders, orders, hashes,
# compares) and may fill whatever the value classes keep about themselves
HIST_TOUCH = ("def c08_touch(ho, hn, hq) do [ho < hq, hq < ho, sorted([ho, hq]), ho == hq, compare(ho, hq), <<ho>>, "
              "<<<ho => 1>>>, [ho], hn < hq, sorted([hn, hq]), <<hn>>, string(hn), s('{hn}'), ho in [ho], length(ho)] "
              "catch all NULL end")


def check_histories(cx, res, limit=None):
    """a tour through every transition of ValText's history machine.  One pair of implementation objects per
    root; each step is a one-line program; after each step the object must hold the model's value (else drift and
    a fresh start) and every path to its text must give the text of a freshly evaluated literal of that value."""
    im = cx.im
    skey = lambda st: json.dumps([st["o"], st["n"]], sort_keys=True)  # noqa: E731
    edges, seen = {}, set()
    for e in res.records("EDGE"):
        k = json.dumps(e, sort_keys=True)
        if k in seen:
            continue
        seen.add(k)
        e["src"] = hist_step_src(e)
        e["pk"], e["qk"] = skey(e["pre"]), skey(e["post"])
        edges.setdefault(e["pk"], []).append(e)
    for lst in edges.values():
        lst.sort(key=lambda e: (e["who"], e["op"], e["src"]))
    roots = {}
    for r in res.records("ROOT"):
        roots.setdefault(skey(r), r)
    stats = {"edges": len(seen), "steps": 0, "restarts": 0, "ops": {}}
    covered = set()
    fresh_cache = {}
    if im.run(HIST_TOUCH)[0] != "val":
        raise MachineryError("cannot define c08_touch")

    def start(st):
        im.run("def hn = " + M.literal(st["n"]))
        im.run("def ho = " + hist_literal(st["o"]))
        im.run("def hq = " + {"list": "[0]", "set": "<<0>>", "map": "<<<0 => 0>>>"}[st["o"]["k"]])
        stats["restarts"] += 1
        observe(None, st, {"o": st["o"], "n": st["n"]}, None)

    def fresh_text(val):
        lit = M.literal(val)
        if lit not in fresh_cache:
            o = im.run(f"string({lit})")
            cx.n_eval += 1
            fresh_cache[lit] = o[1].value if o[0] == "val" and isinstance(o[1], V.ValueString) else None
        return lit, fresh_cache[lit]

    def deref(a, inner):
        if is_inn(a):
            return inner
        if a["k"] in ("list", "set", "map"):
            return M.mk(a["k"], items=[deref(x, inner) for x in a["items"]], vals=[deref(x, inner) for x in a["vals"]])
        return a

    def observe(e, pre, post, val):
        """-> False when the object does not hold the model's value (the caller starts afresh)"""
        val = val if val is not None else deref(post["o"], post["n"])
        o = im.run("ho")
        if o[0] != "val" or M.vkey(o[1]) != M.akey(val):
            cx.run.drift("history-object-differs-from-model",
                         {"step": e["src"] if e else "start", "model": M.literal(val), "impl": str(o[1])[:80]})
            return False
        obj = o[1]
        lit, want = fresh_text(val)
        if want is None:
            return True
        texts = {"str(value)": render(obj)}
        for p, g in text_paths(cx, obj, "ho").items():
            texts[PATH_SHOWN[p]] = ("val", g) if not isinstance(g, tuple) else g
        cx.n_eval += 1
        for how in sorted(texts):
            t = texts[how]
            if t[0] != "val":
                continue
            if t[1] != want:
                hist = (f"{hist_literal(pre['o'])} with hn = {M.literal(pre['n'])}; {e['src']}" if e
                        else f"{hist_literal(post['o'])} with hn = {M.literal(post['n'])}")
                cx.vio(f"history:{hist}", f"history: after `{e['src'] if e else 'the definition'}` on ho = "
                                          f"{hist_literal(pre['o'])}, hn = {M.literal(pre['n'])} (rendered, ordered and "
                                          f"hashed before) the object holds the value {lit}, whose text is {want!r}, "
                                          f"but {how} gives {t[1]!r}: the text depends on the history",
                       {"kind": "history", "root": pre if e else post,
                        "edge": {k: e[k] for k in ("who", "op", "i", "x", "y", "pre", "post", "val")} if e else None})
                break
        im.run("c08_touch(ho, hn, hq)")
        cx.n_eval += 1
        return True

    def path_to_uncovered(cur):
        """shortest path of transitions from cur to a state with an uncovered one"""
        prev = {cur: None}
        queue = [cur]
        while queue:
            s = queue.pop(0)
            if any(id(e) not in covered for e in edges.get(s, [])):
                path = []
                while prev[s] is not None:
                    s, e = prev[s]
                    path.append(e)
                return list(reversed(path))
            for e in edges.get(s, []):
                t = e["qk"]
                if t not in prev:
                    prev[t] = (s, e)
                    queue.append(t)
        return None

    for rk in sorted(roots):
        cur = rk
        start(roots[rk])
        while limit is None or stats["steps"] < limit:
            nxt = [e for e in edges.get(cur, []) if id(e) not in covered]
            if nxt:
                todo = [nxt[0]]
            else:
                todo = path_to_uncovered(cur)
                if todo is None:
                    # some changes cannot be undone (a character of the string that was overwritten): back to the root
                    if cur == rk or path_to_uncovered(rk) is None:
                        break
                    cur = rk
                    start(roots[rk])
                    continue
            for e in todo:
                o = im.run(e["src"])
                cx.n_eval += 1
                stats["steps"] += 1
                covered.add(id(e))
                label = f"{e['who']} {e['pre']['o' if e['who'] == 'outer' else 'n']['k']} {e['op']}"
                stats["ops"][label] = stats["ops"].get(label, 0) + 1
                ok = o[0] == "val"
                if not ok:
                    cx.run.drift("history-step-fails", {"step": e["src"], "got": f"{o[0]} {str(o[1])[:60]}"})
                ok = ok and observe(e, e["pre"], e["post"], e["val"])
                cur = e["qk"]
                if not ok:
                    start(e["post"])
                    break
    stats["covered"] = len(covered)
    return stats


# ------------------------------------------------- numbers made by natives
def number_leaves(w, path=""):
    """the ints and decimals inside what a native returned"""
    if isinstance(w, (V.ValueInt, V.ValueDecimal)):
        yield path, w
    elif isinstance(w, V.ValueList):
        for i, x in enumerate(w.value):
            yield from number_leaves(x, f"{path}[{i}]")
    elif isinstance(w, V.ValueSet):
        for x in w.getSortedItems():
            yield from number_leaves(x, path + "<<>>")
    elif isinstance(w, V.ValueMap):
        for k in w.getSortedKeys():
            yield from number_leaves(k, path + "<<<key>>>")
            yield from number_leaves(w.value[k], f"{path}[{k}]")


def check_made_number(cx, src, w, where=""):
    """a value that says it is an int (a decimal) renders as an integer
    numeral (a numeral with a fractional part), and its text evaluates to a
    value equal to it, of the same type, that renders to the same text -
    whichever native made it.  The verdict goes by the value's own type()."""
    typ = w.type()
    key = (src if len(src) <= 80 else src[:64] + "~" + hashlib.sha1(src.encode()).hexdigest()[:8]) + where
    case = {"kind": "maker", "src": src}
    t = render(w)
    cx.n_eval += 1
    if t[0] != "val":
        cx.vio(f"maker-render:{key}", f"host-exception: rendering the {typ} that {src} returned raised {t[1]}", case)
        return
    txt = t[1]
    try:
        toks = M.lex(txt)
    except Exception as e:  # noqa: BLE001
        toks = [("unscannable", type(e).__name__)]
    kinds = [k for k, _ in toks]
    neg = txt.startswith("-")
    body = txt[1:] if neg else txt
    if typ == "int":
        ok = (kinds == (["operator", "int"] if neg else ["int"]) and toks[-1][1] == body and body.isdigit()
              and body.isascii())
        if not ok:
            cx.vio(f"maker-int-numeral:{key}", f"shape: {src} returned a value of type int{where and ' at ' + where} that "
                                               f"renders as {txt!r} (host payload {type(w.value).__name__}): not an "
                                               f"integer numeral", case)
            return
    else:
        ip, _, fp = body.partition(".")
        ok = (kinds == (["operator", "decimal"] if neg else ["decimal"]) and toks[-1][1] == body
              and ip.isdigit() and fp.isdigit() and ip.isascii() and fp.isascii())
        if not ok:
            cx.vio(f"maker-decimal-numeral:{key}", f"shape: {src} returned a value of type decimal{where and ' at ' + where} "
                                                   f"that renders as {txt!r}: not a numeral with a fractional part", case)
            return
    check_text_paths(cx, w, f"the {typ} that {src} returned{where and ' at ' + where}", "maker " + key, case, txt)
    o = cx.im.run(txt)
    cx.n_eval += 1
    if o[0] != "val":
        cx.vio(f"maker-round-trip:{key}", f"round-trip: the text {txt[:60]!r} of the {typ} that {src} returned does not "
                                          f"evaluate: {o[0]} {str(o[1])[:80]}", case)
        return
    back = o[1]
    same = M.host(lambda: (back.type() == typ, bool(back == w), str(back) == txt))
    if same[0] != "val" or same[1] != (True, True, True):
        cx.vio(f"maker-round-trip:{key}", f"round-trip: the text {txt[:60]!r} of the {typ} that {src} returned evaluates "
                                          f"to {str(back)[:60]} ({back.type()}); same type / equal / same text = "
                                          f"{same[1] if same[0] == 'val' else same}", case)


def maker_source(op, a):
    if op == "find":
        return f"find({M.literal(a)}, {M.literal(a['items'][-1])})"
    return f"{op}({M.literal(a)})"


def check_model_makers(cx, u, res):
    """binding A for ValLaws!Make: every native of MakerOps on every value of
    the universe the model defines it for"""
    rows = {r["i"]: r for r in res.records("MK")}
    if sorted(rows) != list(range(1, u["n"] + 1)):
        raise MachineryError("ValLaws MK export incomplete")
    n = 0
    kinds = {"int": "int", "dec": "decimal"}
    for i in range(1, u["n"] + 1):
        a = u["v"][i]
        for m in rows[i]["mk"]:
            if not m["ok"]:
                continue
            src = maker_source(m["op"], a)
            o = cx.im.run(src)
            cx.n_eval += 1
            n += 1
            if o[0] != "val":
                cx.run.drift("maker-does-not-return", {"src": src, "got": str(o)[:120]})
                continue
            w = o[1]
            if w.type() not in ("int", "decimal"):
                cx.run.drift("maker-kind-differs", {"src": src, "model": m["k"], "impl": w.type()})
                continue
            check_made_number(cx, src, w)
            if w.type() != kinds[m["k"]]:
                cx.run.drift("maker-kind-differs", {"src": src, "model": m["k"], "impl": w.type()})
            elif m["val"]:
                want = M.build(m["v"], cx.im.refs)
                eq = M.host(lambda: bool(want == w))
                if eq != ("val", True):
                    cx.run.drift("maker-result-differs", {"src": src, "model": M.literal(m["v"]), "impl": str(w)[:60]})
                elif str(w) != M.text(m["txt"]) and M.literal(m["v"]) not in ("0.0", "-0.0"):
                    cx.run.drift("maker-text-differs", {"src": src, "model": M.text(m["txt"]), "impl": str(w)[:60]})
    for m in rows[1]["nullary"]:
        src = m["op"] + "()"
        o = cx.im.run(src)
        cx.n_eval += 1
        n += 1
        if o[0] != "val":
            cx.run.drift("maker-does-not-return", {"src": src, "got": str(o)[:120]})
            continue
        if o[1].type() != kinds[m["k"]]:
            cx.run.drift("maker-kind-differs", {"src": src, "model": m["k"], "impl": o[1].type()})
        if o[1].type() in ("int", "decimal"):
            check_made_number(cx, src, o[1])
    return n


# programs whose results hold numbers that natives, operators and the bundled modules manufacture (outside the
# argument universe of the model): every int / decimal in the result is judged by check_made_number
MAKER_PROGRAMS = [
    "timestamp()", "length('abc')", "length([1, 2])", "length(<<<1 => 2>>>)", "length(range(5))", "int('12')",
    "int('-7')", "int(2.5)", "int(-2.5)", "int(TRUE)", "int(date('20240115'))", "decimal('1.5')", "decimal('2')",
    "decimal(TRUE)", "decimal(date('20240115120000'))", "find('abc', 'c')", "find('abc', 'x')", "find([1, 2, 3], 3)",
    "find_last('abcabc', 'c')", "find_last([1, 2, 1], 1)", "count([1, 2, 1], 1)", "count('abab', 'a')",
    "date('20240115') - date('20240101')", "date('20240115120000') - date('20240101')", "date('20240115') - 1.5",
    "7 / 2", "7 / 2.0", "-7 / 2", "7 % 2", "7.5 % 2", "2 * 3", "2 * 3.0", "1 - 3", "1 - 3.5", "div(7, 2)", "mod(7, 2)",
    "bit_and(12, 10)", "bit_or(12, 10)", "bit_xor(12, 10)", "bit_not(12)", "bit_shift_left(1, 31)",
    "bit_shift_right(-1, 1)", "bit_rotate_left(1, 33)", "bit_rotate_right(1, 1)",
    "require Math; [Math->pow(2, 10), Math->pow(2, -1), Math->pow(2.0, 3), Math->pow(2, 0.5)]",
    "require Math; [Math->sqrt(16), Math->exp(0), Math->log(1), Math->PI, Math->E]",
    "require Math; [Math->sin(0), Math->cos(0), Math->atan2(0, 1)]",
    "parse_json('[1, -2, 1.5, 1e2, 1E-2, 12345678901234567890, 0.1, -0.0, 1.0]')", "parse_json('{\"a\": 1, \"b\": 2.0}')",
    "parse('12')", "eval('1 + 2')", "eval('1.5 + 2')", "range(3)", "range(1, 4)", "range(5, 1, -2)", "enumerate(['a', 'b'])",
    "[int(x) for x in [1.0, '2', TRUE, 3]]", "[decimal(x) for x in [1, '2', TRUE, 3.5]]",
    "sum([1, 2, 3])", "sum([1, 2.5])", "sum([])", "sum([1.5, 1.5])", "min([3, 1.5])", "max([3, 1.5])",
    "require List; [List->prod([2, 3]), List->prod([2.0, 3]), List->reduce([1, 2, 3], fn(a, b) a + b)]",
    "require Stat; [Stat->mean([1, 2]), Stat->mean([1, 3]), Stat->median([1, 2]), Stat->median([1, 3, 5]), "
    "Stat->median_low([1, 2]), Stat->median_high([1, 2])]",
    "require Random; Random->set_seed(3); [Random->random(10), Random->random(), Random->random(1000000)]",
    "set_seed(1)", "sign(-2.5)", "sign(0)", "abs(-3)", "abs(-2.5)", "floor(2.5)", "ceiling(2.5)", "round(2.5)", "round(2.567, 2)",
    "round(1234, -2)", "floor(7)", "ceiling(-7)", "floor(9007199254740993)", "ceiling(9007199254740993)",
    "round(9007199254740993)", "decimal(9007199254740993)", "decimal(12345678901234567890123)",
    "round(12345678901234567890)", "int(9007199254740993.0)", "int(1234567890123456789012.0)",
    "1000000 * 1000000 * 1000000", "9007199254740993 + 0.0", "9007199254740993 * 1.0", "9007199254740992 / 1.0",
    "string_length('abc')", "ord('a')", "char_code('a')", "length(split('a b c'))", "length(chunks([1, 2, 3], 2))",
    "process_lines(str_input('a\\nb'), fn(l) 1)", "length(lines('a\\nb'))",
    # ints longer than the host converts to text in one piece
    "require Math; Math->pow(10, 5000)", "def c08x = 1; for c08i in range(4400) do c08x = c08x * 10; end; [c08x, -c08x]",
    "bit_shift_left(1, 31) * bit_shift_left(1, 31)",
]


def check_maker_programs(cx):
    n = 0
    for src in MAKER_PROGRAMS:
        o = cx.im.run(src)
        cx.n_eval += 1
        if o[0] != "val":
            continue                      # not defined in this build / an error: nothing was made
        for where, w in number_leaves(o[1]):
            check_made_number(cx, src, w, where)
            n += 1
    return n


def check_made_from_magnitudes(cx, xs, ints):
    """the rounding natives on decimals of all magnitudes, decimal() on ints of all magnitudes"""
    n = 0
    for x in xs:
        lit = str(V.ValueDecimal(x))
        for op in ("floor", "ceiling", "round", "int", "abs"):
            o = cx.im.run(f"{op}({lit})")
            cx.n_eval += 1
            if o[0] == "val" and o[1].type() in ("int", "decimal"):
                check_made_number(cx, f"{op}({lit})", o[1])
                n += 1
    for m in ints:
        for op in ("decimal", "floor", "round", "abs"):
            src = f"{op}({int_text(m)})"
            o = cx.im.run(src)
            cx.n_eval += 1
            if o[0] == "val" and o[1].type() in ("int", "decimal"):
                check_made_number(cx, src, o[1])
                n += 1
    return n


# -------------------------------------------------------- numbers by Python
def magnitudes(rng, n):
    xs = [0.0, -0.0, 1.0, -1.0, 0.1, 1e16, 1e15, 9999999999999998.0, 1e-5, 1e-4, 0.0001, 1e22, 1e23, 1e100,
          1.7976931348623157e308, 5e-324, 2.2250738585072014e-308, 1e-320, 123456789012345678.0, 1e21,
          -1e16, -1e-5, -2.5e-7, 4.35, 0.30000000000000004, 2.0 ** 53, 2.0 ** 64, 1 / 3]
    for _ in range(n):
        e = rng.uniform(-320, 308)
        m = rng.uniform(1, 10) if rng.random() < 0.7 else float(rng.randint(1, 9))
        try:
            x = m * 10.0 ** e
        except OverflowError:
            continue
        if x != x or math.isinf(x):
            continue
        xs.append(x if rng.random() < 0.7 else -x)
    return xs


def check_decimal(cx, x):
    """shape: one decimal token (digits . digits), optional minus; round trip
    of the exact bits; also inside containers"""
    v = V.ValueDecimal(x)
    txt = str(v)
    key = "decimal " + float(x).hex()
    case = {"kind": "decimal", "hex": float(x).hex()}
    cx.n_eval += 1
    try:
        toks = M.lex(txt)
    except Exception as e:  # noqa: BLE001
        toks = [("unscannable", type(e).__name__)]
    kinds = [t for t, _ in toks]
    neg = txt.startswith("-")
    body = txt[1:] if neg else txt
    ip, _, fp = body.partition(".")
    ok = (kinds == (["operator", "decimal"] if neg else ["decimal"]) and toks[-1][1] == body
          and ip.isdigit() and fp.isdigit() and ip.isascii() and fp.isascii())
    if not ok:
        cx.vio(f"decimal-numeral:{key}", f"shape: the decimal {x!r} renders as {txt!r}, which scans as {toks}: "
                                         f"not a numeral with a fractional part", case)
    check_text_paths(cx, v, f"the decimal {x!r}", key, case, txt)
    for form, wrap in (("", lambda w: w), ("[%s]", lambda w: w.value[0]), ("<<%s>>", lambda w: next(iter(w.value))),
                       ("<<<1 => %s>>>", lambda w: next(iter(w.value.values())))):
        src = (form % txt) if form else txt
        o = cx.im.run(src)
        cx.n_eval += 1
        if o[0] != "val":
            cx.vio(f"decimal-round-trip:{key}", f"round-trip: the text {src[:60]!r} of the decimal {x!r} does not "
                                                f"evaluate: {o[0]} {str(o[1])[:80]}", case)
            break
        try:
            w = wrap(o[1])
        except Exception:  # noqa: BLE001
            w = o[1]
        if not isinstance(w, V.ValueDecimal) or not isinstance(w.value, float) or w.value.hex() != float(x).hex():
            cx.vio(f"decimal-round-trip:{key}", f"round-trip: the text {src[:60]!r} of the decimal {x!r} "
                                                f"evaluates to {str(w)[:60]} ({w.type()})", case)
            break
        if str(o[1]) != src:
            cx.vio(f"decimal-round-trip-text:{key}", f"round-trip: re-evaluated {src[:60]!r} renders as "
                                                     f"{str(o[1])[:60]!r}", case)
            break


def check_int(cx, n):
    v = V.ValueInt(n)
    t = render(v)
    key = "int " + int_name(n)
    case = {"kind": "int", "n": hex(n)}
    cx.n_eval += 1
    if t[0] != "val":
        cx.vio(f"render:{key} !{t[1]}", f"host-exception: rendering the int {int_name(n)} raised {t[1]} {t[2][:60]}", case)
        return
    txt = t[1]
    toks = M.lex(txt)
    neg = txt.startswith("-")
    body = txt[1:] if neg else txt
    if [t for t, _ in toks] != (["operator", "int"] if neg else ["int"]) or toks[-1][1] != body or not body.isdigit() \
            or not body.isascii():
        cx.vio(f"int-numeral:{key}", f"shape: the int {int_name(n)} renders as {short(txt, 60)!r}: not an integer numeral",
               case)
    check_text_paths(cx, v, f"the int {int_name(n)}", key, case, txt)
    for form, wrap in (("%s", lambda w: w), ("[%s]", lambda w: w.value[0]), ("<<<1 => %s>>>", lambda w: w.value[V.ValueInt(1)])):
        src = form % txt
        o = cx.im.run(src)
        cx.n_eval += 1
        bad = None
        if o[0] != "val":
            bad = f"does not evaluate: {o[0]} {str(o[1])[:80]}"
        else:
            got = M.host(lambda: (lambda w: (isinstance(w, V.ValueInt), type(w.value) is int, w.value == n))(wrap(o[1])))
            t2 = render(o[1])
            if got != ("val", (True, True, True)):
                bad = f"evaluates to another value ({short(t2[1], 40)}; int value / host int / equal = {got[1]})"
            elif t2 != ("val", src):
                bad = f"evaluates to a value that renders as {short(t2[1], 40)!r}"
        if bad:
            cx.vio(f"int-round-trip:{key}", f"round-trip: the text {short(src, 60)!r} of the int {int_name(n)} {bad}", case)
            break


def int_text(n):
    """the decimal digits of a host int of any length (the harness's own, not the implementation's)"""
    m, pieces = abs(n), []
    while m >= 10 ** 1000:
        m, r = divmod(m, 10 ** 1000)
        pieces.append(str(r).zfill(1000))
    pieces.append(str(m))
    return ("-" if n < 0 else "") + "".join(reversed(pieces))


def int_name(n):
    """the int itself, or for a long one its length and a hash (keys and messages stay short)"""
    if abs(n) < 10 ** 60:
        return str(n)
    m, digits = abs(n), 0
    while m >= 10 ** 1000:
        m //= 10 ** 1000
        digits += 1000
    digits += len(str(m))
    return f"{'-' if n < 0 else ''}{digits}-digit int #{hashlib.sha1(hex(n).encode()).hexdigest()[:10]}"


# ---------------------------------------------------------------- binding B
def data_scalar(rng, kind=None):
    kind = kind or rng.choice(["null", "bool", "int", "int", "dec", "dec", "str", "str", "str", "pat"])
    if kind == "str":
        alpha = M.ALPHA + ['"', "\r", "}", ">", "x", "n", "0", "e", "\u0301", "\u212b"]
        n = rng.choice([0, 1, 1, 2, 3, 4, 6])
        return M.a_str("".join(rng.choice(alpha) for _ in range(n)))
    if kind == "pat":
        # payloads around the delimiter: `/` and the backslash inside, quotes, blanks, `#`; only the shapes the
        # pattern syntax cannot express at all (ValText!PatWritable fails: the known findings) are left out
        for _ in range(20):
            p = "".join(rng.choice(PAT_ALPHA) for _ in range(rng.randint(1, 4)))
            if pat_writable(p) and valid_regex(p):
                return M.a_pat(p)
        return M.a_pat("a/b")
    return M.gen_scalar(rng, kind)


PAT_ALPHA = "aAb!./\\'# d+|"


def pat_writable(p):
    """ValText!PatWritable (used to choose inputs only; the model is checked by TLC)"""
    return p != "" and not p.startswith("/") and not p.endswith("/") and "//" not in p


def valid_regex(p):
    """a pattern value exists only for a payload the host accepts as a regular expression"""
    try:
        re.compile(p)
        return True
    except (re.error, OverflowError, RecursionError):
        return False


def no_null_keys(a):
    """the generator keeps NULL out of map keys (covered by the fixed cases)"""
    if a["k"] == "map" and any(x["k"] == "null" for x in a["items"]):
        return False
    return all(no_null_keys(x) for x in a["items"]) and all(no_null_keys(x) for x in a["vals"])


def render_event(cx, a, rng):
    im = cx.im
    texts = texts_of_orders(cx, a, rng, 2 if M.depth(a) else 0)
    cx.n_eval += len(texts)
    base = texts[0][1]
    if base[0] != "val":
        cx.vio(f"render:{lit_key(a)} !{base[1]}", f"host-exception: rendering raised {base[1]}", {"kind": "value", "v": a})
        return None
    txt = base[1]
    cons = all(t == base for _, t in texts)
    try:
        toks = M.toks_of(txt)
    except Exception:  # noqa: BLE001
        toks = [{"t": "unscannable", "s": []}]
    e = {"op": "render", "v": a, "toks": toks, "cons": cons, "data": True, "rtok": False, "rt": M.a_null(),
         "same": False, "txt": txt}
    check_text_paths(cx, M.build(a, im.refs), lit_key(a), lit_key(a), {"kind": "paths", "v": a}, txt)
    o = im.run(txt)
    cx.n_eval += 1
    if o[0] == "val":
        try:
            e["rt"] = M.to_abs(o[1], im.refs)
            e["rtok"] = True
            e["same"] = str(o[1]) == txt
        except M.Unencodable:
            e["rtok"] = False
    return e


# The known findings of C08 are matched by key alone (harness/common.py).  A change of the code that makes one of
# those inputs fail DIFFERENTLY (another text, other rejected clauses) would stay hidden behind the key; so the
# symptom each was recorded with is kept here, and any other symptom under the same key is reported under the key
# "<key> [other symptom]", which no known finding matches.
KNOWN_SYMPTOMS = {
    "fixed:pattern('a//b')": ("//a//b//", ["tokens", "text-does-not-evaluate"]),
    "fixed:pattern('/a')": ("///a//", ["tokens", "text-does-not-evaluate"]),
    "fixed:pattern('a/')": ("//a///", ["tokens", "text-does-not-evaluate"]),
    "fixed:pattern('')": ("////", ["tokens", "text-does-not-evaluate"]),
    "fixed:[pattern('x//')]": ("[//x////]", ["tokens", "text-does-not-evaluate"]),
    "fixed:map([[NULL, 1]])": ("<<<NULL => 1>>>", ["round-trip-equal", "round-trip-text"]),
    "fixed:map([[1, 2], [NULL, NULL]])": ("<<<1 => 2, NULL => NULL>>>", ["round-trip-equal", "round-trip-text"]),
    "fixed:[map([[NULL, 'a']])]": ("[<<<NULL => 'a'>>>]", ["round-trip-equal", "round-trip-text"]),
    "equal-representatives:<<1, 1.0>> / <<1.0, 1>>": (["<<1>>", "<<1.0>>"], []),
    "equal-representatives:<<0.0, -0.0>> / <<-0.0, 0.0>>": (["<<0.0>>", "<<-0.0>>"], []),
    "equal-representatives:<<[1], [1.0]>> / <<[1.0], [1]>>": (["<<[1]>>", "<<[1.0]>>"], []),
    "equal-representatives:<<<1 => 'x', 1.0 => 'x'>>> / <<<1.0 => 'x', 1 => 'x'>>>":
        (["<<<1 => 'x'>>>", "<<<1.0 => 'x'>>>"], []),
}


def same_symptom(cx, key, text, clauses, what, case):
    """a failure under the key of a known finding must be the failure that was recorded"""
    rec = KNOWN_SYMPTOMS.get(key)
    if rec is not None and (rec[0] != text or sorted(rec[1]) != sorted(clauses)):
        cx.vio(key + " [other symptom]", what + f" - recorded for this known finding: text {rec[0]!r}, rejected at "
                                                f"{rec[1]}; now: text {text!r}, rejected at {clauses}", case)


def report_bad(cx, bad, events, meta, prefix):
    """one violation per rejected record, naming every rejected clause"""
    by = {}
    for k, why in bad:
        if why == "wf":
            raise MachineryError(f"harness sent an ill-formed value: {meta[k]}")
        by.setdefault(k, []).append(why)
    for k in sorted(by):
        e = events[k]
        what = (f"{by[k][0]}: the text {e['txt'][:60]!r} "
                f"of {meta[k]} scanned as {_toks(e['toks'])[:160]}, re-evaluated "
                f"ok={e['rtok']} same text={e['same']} one text over construction "
                f"orders={e['cons']}: rejected by Val_Trace at {by[k]}")
        case = {"kind": "trace", "events": [e], "meta": [meta[k]]}
        cx.vio(f"{prefix}:{meta[k]}", what, case)
        same_symptom(cx, f"{prefix}:{meta[k]}", e["txt"], by[k], what, case)


def inexact_big_decimal(a):
    """a decimal >= 10^8 whose shortest host digits are not its exact digits
    (more than ~16 significant digits): its numeral is the host's shortest
    round-tripping one, which the model does not describe"""
    if a["k"] == "dec" and a["n"][1] == 0:
        x = M.float_of(a)
        from decimal import Decimal
        return int(Decimal(repr(x))) != int(x)
    return any(inexact_big_decimal(x) for x in a["items"]) or any(inexact_big_decimal(x) for x in a["vals"])


def binding_b(cx, rng, nvals):
    events, meta = [], []
    for _ in range(nvals):
        a = M.gen_value(rng, rng.choice([0, 1, 2, 2, 3]), elem=data_scalar)
        if not M.is_data(a) or not no_null_keys(a) or inexact_big_decimal(a):
            continue
        e = render_event(cx, a, rng)
        if e:
            events.append(e)
            meta.append(lit_key(a))
    report_bad(cx, M.validate(cx.run, events, "Val_Trace validation of recorded texts, tokens and "
                                               "re-evaluated values"), events, meta, "trace")
    return events


def run(run):
    quick = run.tier == "quick"
    rng = random.Random(run.seed)
    cx = Ctx(run)
    res_u, res_t = M.tlc_parallel([
        ("ValLaws", "ValLaws_c08_quick" if quick else "ValLaws_c08_thorough", {"coverage": False, "timeout": 3000}),
        ("ValText", "ValText_quick" if quick else "ValText_thorough", {"coverage": False, "timeout": 3000})])
    run.add_tlc(res_t, "ValText: the pattern syntax (which payloads can be written, what the scanner takes) and the "
                       "history machine (outer / inner object through every mutator; the text follows the value)")
    u = M.load_universe(run, None, "ValLaws: text form laws over the universe, the quote/scan machine and the "
                                   "natives that make numbers", res_u)
    n = u["n"]
    seen_txt = {}
    nvals = 0
    for i in range(1, n + 1):
        a = u["v"][i]
        if a["k"] == "ref":
            continue
        txt = check_value(cx, a, u["txt"][i], u["toks"][i], u["os"][i], rng)
        nvals += 1
        if txt is None:
            continue
        # values of the universe with one model text are one value in other insertion orders
        mt = M.text(u["txt"][i])
        if mt in seen_txt and seen_txt[mt][1] != txt:
            cx.vio(f"construction-order:{lit_key(a)} / {seen_txt[mt][0]}",
                   f"construction-order: {lit_key(a)} renders as {txt!r}, {seen_txt[mt][0]} as "
                   f"{seen_txt[mt][1]!r}; they are the same value", {"kind": "value", "v": a})
        seen_txt.setdefault(mt, (lit_key(a), txt))
    k = next(i for i in range(1, n + 1) if u["v"][i]["k"] == "map" and len(u["v"][i]["items"]) == 2)
    run.sample({"VALUE": {"built": M.literal(u["v"][k]), "text": M.text(u["txt"][k]),
                          "tokens": _toks(u["toks"][k])}})

    # fixed cases: judged by the trace spec (tokens, round trip), like binding B
    fx = fixed_cases()
    events, meta = [], []
    for a in fx:
        e = render_event(cx, a, rng)
        if e:
            events.append(e)
            meta.append(lit_key(a))
    report_bad(cx, M.validate(run, events, "Val_Trace validation of the fixed adversarial values"),
               events, meta, "fixed")
    check_rep_cases(cx)
    check_interrupted(cx)
    check_date_difference(cx)
    check_identifier_keys(cx)

    xs = magnitudes(rng, 400 if quick else 20000)
    for x in xs:
        check_decimal(cx, x)
    ints = [0, 1, -1, 999999, 10 ** 6 + 1, 12345678, -(10 ** 7), 2 ** 31, 2 ** 53 + 1, 2 ** 64, -(2 ** 64) - 1, 10 ** 40]
    ints += [rng.randint(-10 ** rng.randint(1, 40), 10 ** rng.randint(1, 40)) for _ in range(200 if quick else 5000)]
    # ints of all magnitudes: also beyond the number of digits the host converts in one piece (4300)
    ints += [10 ** 4299, 10 ** 4300 - 1, 10 ** 4300, -(10 ** 4300), 7 * 10 ** 5000 + 3, -(10 ** 9999) - 1, 2 ** 20000]
    ints += [rng.randint(10 ** 4000, 10 ** rng.randint(4001, 6000)) * rng.choice([1, -1]) for _ in range(3 if quick else 40)]
    for m in ints:
        check_int(cx, m)
    run.sample({"DECIMAL": {"value": repr(xs[5]), "text": str(V.ValueDecimal(xs[5]))[:40]}})

    # numbers that natives make: the model's Make table, programs outside it, all magnitudes
    n_via = check_model_paths(cx, u, res_u)
    st_pat = check_patterns(cx, res_t)
    st_hist = check_histories(cx, res_t)
    if st_hist["covered"] != st_hist["edges"]:
        raise MachineryError(f"history tour covered {st_hist['covered']} of {st_hist['edges']} transitions")
    run.sample({"HISTORY": {"transitions": st_hist["edges"], "steps": st_hist["steps"], "restarts": st_hist["restarts"]},
                "PATTERNS": st_pat})
    n_mk = check_model_makers(cx, u, res_u)
    n_mp = check_maker_programs(cx)
    n_mm = check_made_from_magnitudes(cx, xs if quick else xs[:4000], ints if quick else ints[:2000])
    run.sample({"MAKER": {"src": "floor(2.5)", "model": "VDec(2, 1) -> 2.0", "impl": str(cx.im.run("floor(2.5)")[1])}})

    evs = binding_b(cx, rng, 1200 if quick else 40000)
    if evs:
        e = evs[len(evs) // 2]
        run.sample({"TRACE": {"v": M.literal(e["v"]), "toks": _toks(e["toks"])[:200], "rtok": e["rtok"],
                              "same": e["same"], "cons": e["cons"]}})
    total = (nvals + len(fx) + len(xs) + len(ints) + len(evs) + len(REP_CASES) + len(MIXED_CASES) + n_mk + n_mp + n_mm
             + n_via + st_pat["values"] + st_hist["edges"])
    run.cov["traces_validated_against_impl"] = total
    run.cov["evaluations"] = cx.n_eval + cx.im.n
    run.cov["distinct_nontrivial"] = total
    run.cov["rule"] = ("binding A: one case per value of the ValLaws universe (each built in up to 8 insertion "
                       "orders, by constructors and by literals), one per (value, observer) of ValLaws!RenderVia, one "
                       "per pattern payload of ValText that is a pattern value, one per transition of ValText's "
                       "history machine (all covered by the tour); fixed adversarial values; one per decimal / int "
                       "magnitude; binding B: one per random data value whose record Val_Trace accepted")
    run.cov["exhaustive"] = True
    run.cov["universe"] = n
    run.cov["bounds"] = {"universe": n, "fixed": len(fx), "decimals": len(xs), "ints": len(ints),
                         "random_values": len(evs), "model_maker_calls": n_mk, "maker_program_numbers": n_mp,
                         "maker_calls_on_magnitudes": n_mm, "observer_texts_of_the_universe": n_via,
                         "patterns": st_pat, "history": st_hist}
    run.assumptions += [
        "blanks outside string and pattern literals are not compared (recorded as drift when they differ)",
        "the enumeration order of a set / map with elements of different kinds (or of patterns, sets, maps) is not "
        "named by the statement: for those values the tokens are compared as a multiset",
        "decimals across all magnitudes: TLA+ does not model the host's float-to-text conversion; the model states "
        "the shape (one decimal token, optional minus) and the round trip, magnitudes 5e-324 .. 1.8e308 and +-0.0 "
        "are driven from Python and judged with the real scanner; inf and nan are out of scope (reachable only "
        "through overflow)",
        "the random generator keeps NULL out of map keys (covered by the fixed cases) and draws only pattern payloads "
        "the syntax can express (ValText!PatWritable: not empty, no `/` at an end, no `//` inside); the others are "
        "the class of the known findings on patterns: ValText proves that the scanner ends their text early, the "
        "harness counts that each fails as modelled (drift if one does not) and five of them are fixed cases",
        "a pattern value exists only for a payload the host accepts as a regular expression: other grown payloads "
        "are skipped",
        "the conversion of a string (itself), NULL ('') and a pattern (its payload) is documented to differ from "
        "the text form: for these kinds the paths string(v), '' + v, s(), join, print are compared with "
        "ValLaws!RenderVia as drift only; for booleans, ints, decimals, dates, lists, sets and maps every path must "
        "give the text of str(value)",
        "object histories: the element pools hold no two equal representatives (1 / 1.0: the known finding on equal "
        "representatives), the inner object is held at list positions and as a map value only (an element of a set "
        "or a key that is changed afterwards is C06's subject); a step after which the object does not hold the "
        "model's value is drift (what a mutator does is C06 / C16's subject) and the tour starts afresh there",
        "a failure under the key of a known finding is accepted only with the text and the rejected clauses it was "
        "recorded with (KNOWN_SYMPTOMS); any other symptom is reported under '<key> [other symptom]'",
        "decimals >= 10^8 whose exact digits differ from the host's shortest digits (more than 16 significant "
        "digits) are not sent to the model; they go through the Python-driven magnitude check",
        "dates are not data values: only (i) and (ii) are compared for them",
        "numbers made by natives are judged by their own type(): int -> integer numeral, decimal -> numeral with a "
        "fraction, and the round trip of the text; a result whose kind or value differs from ValLaws!Make is drift "
        "(what a native computes is not C08's subject)",
    ]


class Recorded:
    """records of a TLC run that were stored in a replay case"""

    def __init__(self, recs):
        self.recs = recs

    def records(self, tag):
        return [json.loads(json.dumps(r)) for r in self.recs.get(tag, [])]


def replay(run, case):
    cx = Ctx(run)
    rng = random.Random(run.seed)
    k = case["kind"]
    if k == "value":
        a = case["v"]
        e = render_event(cx, a, rng)
        if e:
            e["data"] = M.is_data(a)
            for kk, why in M.validate(run, [e], "replay"):
                run.violation(f"replay:{lit_key(a)} @{why}", f"{why}: rejected by Val_Trace", case)
    elif k == "trace":
        evs = []
        for e in case["events"]:
            ne = render_event(cx, e["v"], rng)
            if ne:
                evs.append(ne)
        for kk, why in M.validate(run, evs, "replay"):
            run.violation(f"replay:{case['meta'][kk]} @{why}", f"{why}: rejected by Val_Trace", case)
    elif k == "interrupted":
        check_interrupted(cx)
    elif k in ("rep", "mixed"):
        check_rep_cases(cx)
    elif k == "decimal":
        check_decimal(cx, float.fromhex(case["hex"]))
    elif k == "int":
        check_int(cx, int(case["n"], 0))
    elif k == "prog":
        check_date_difference(cx)
        check_identifier_keys(cx)
    elif k == "paths":
        a = case["v"]
        check_text_paths(cx, M.build(a, cx.im.refs), lit_key(a), lit_key(a), case)
    elif k == "pattern":
        p = case["p"]
        check_patterns(cx, Recorded({"PAT": [{"p": M.cps(p), "txt": M.cps("//" + p + "//"), "w": pat_writable(p),
                                              "used": 0, "payload": []}]}))
    elif k == "history":
        # the object graph is built afresh in the state before the step, rendered / ordered / hashed, then stepped
        e = case["edge"]
        check_histories(cx, Recorded({"ROOT": [case["root"]], "EDGE": [e] if e else []}))
    elif k == "maker":
        o = cx.im.run(case["src"])
        if o[0] == "val":
            for where, w in number_leaves(o[1]):
                check_made_number(cx, case["src"], w, where)
