"""Shared by C03 / C04 / C05 (and the program pool of C14): run a family of
Machine.tla programs through TLC, render each exported program to checkerlang
source, run it on the real interpreter and compare the observation
(result or error value, and the in-program log) with the model's.
"""
from .common import import_ckl, MachineryError
from .tla import run_tlc
from . import absval

import_ckl()
from ckl.interpreter import Interpreter  # noqa: E402
from ckl.errors import CklRuntimeError, CklSyntaxError  # noqa: E402

PRELUDE = "def LOG = []; def log(v) do append(LOG, v); v end; require IO import [str_input, process_lines]; "


# ------------------------------------------------------------------ values
def chars(s):
    return "".join(chr(c) for c in s)


def val_src(v):
    k = v["k"]
    if k == "null":
        return "NULL"
    if k == "bool":
        return "TRUE" if v["n"] == 1 else "FALSE"
    if k == "int":
        return str(v["n"]) if v["n"] >= 0 else f"({v['n']})"
    if k == "str":
        return absval.quote(chars(v["s"]))
    raise ValueError("literal of kind " + k)


def val_py(v):
    k = v["k"]
    if k == "null":
        return None
    if k == "bool":
        return v["n"] == 1
    if k == "int":
        return v["n"]
    if k == "str":
        return ("str", chars(v["s"]))
    if k == "list":
        return ("list", tuple(val_py(x) for x in v["s"]))
    if k == "set":
        return ("set", frozenset(val_py(x) for x in v["s"]))
    if k == "map":
        return ("map", frozenset((val_py(p[0]), val_py(p[1])) for p in v["s"]))
    if k == "fn":
        return ("func",)
    if k == "obj":
        return ("obj", tuple((chars(p[0]), val_py(p[1])) for p in v["s"]))
    return (k,)


def norm(p):
    """forget function names (the model has none); keep booleans apart from ints (True == 1 in Python)"""
    if isinstance(p, bool):
        return ("bool", "T" if p else "F")
    if isinstance(p, tuple):
        if p and p[0] == "func":
            return ("func",)
        return tuple(norm(x) for x in p)
    if isinstance(p, frozenset):
        return frozenset(norm(x) for x in p)
    return p


# ------------------------------------------------------------------ rendering
SIMPLE = {"lit", "var", "call", "list", "set", "map", "obj", "method", "member", "compr", "compr2", "log", "index",
          "input", "evalstr", "each"}


def paren(s):
    return "(" + s + ")"


def operand(n):
    s = src(n)
    if n["n"] in SIMPLE and not (n["n"] == "lit" and s.startswith("(")):
        return s
    if n["n"] == "lit":
        return s
    return paren(s)


def expr(n):
    """parse_expression level: for / while / def need parentheses"""
    if n["n"] in ("for", "while", "def", "ddef"):
        return paren(src(n))
    return src(n)


def orexpr(n):
    """parse_or_expr level (conditions, if branches): also `if` needs them"""
    if n["n"] in ("for", "while", "def", "ddef", "if"):
        return paren(src(n))
    return src(n)


def block_src(n):
    stmts, catches, fins = n["a"]
    out = "do " + "; ".join(src(s) for s in stmts)
    for c in catches:
        out += " catch " + ("all" if c[0]["n"] == "all" else orexpr(c[0])) + " " + stmt_or_block(c[1])
    if fins:
        out += " finally " + "; ".join(src(s) for s in fins)
    return out + " end"


def stmt_or_block(n):
    return block_src(n) if n["n"] == "block" else src(n)


def body_src(n):
    return block_src(n) if n["n"] == "block" else expr(n)


def params_src(ps):
    out = []
    for p in ps:
        if p["def"]["n"] != "none":
            out.append(f"{p['name']} = {expr(p['def'])}")
        else:
            out.append(p["name"])
    return ", ".join(out)


def args_src(args):
    out = []
    for a in args:
        if a["n"] == "spread":
            out.append("..." + src(a["a"][0]))
        elif a["s"]:
            out.append(f"{a['s']} = {expr(a['a'][0])}")
        else:
            out.append(expr(a["a"][0]))
    return ", ".join(out)


def items_src(items):
    return ", ".join(("..." + src(i["a"][0])) if i["n"] == "spread" else expr(i["a"][0]) for i in items)


def what_src(what, default):
    """`for` defaults to values (parser), comprehensions to entries for maps:
    the word is printed unless it is that default"""
    return "" if what == default else what + " "


def src(n):
    t = n["n"]
    a = n["a"]
    if t == "lit":
        return val_src(n["v"])
    if t == "var":
        return n["s"]
    if t == "def":
        e = a[0]
        if e["n"] == "fn" and e["a"][1]["n"] == "block":
            return f"def {n['s']}({params_src(e['a'][0])}) {block_src(e['a'][1])}"
        return f"def {n['s']} = {expr(e)}"
    if t == "assign":
        e0 = a[0]
        # `x = x + e` is also written `x += e` (the parser builds the same node); which spelling is used is a
        # fixed function of the text
        if e0["n"] == "bin" and e0["s"] in ("+", "-", "*", "/", "%") and e0["a"][0]["n"] == "var" \
                and e0["a"][0]["s"] == n["s"] and len(src(e0["a"][1])) % 2 == 0:
            return f"{n['s']} {e0['s']}= {expr(e0['a'][1])}"
        return f"{n['s']} = {expr(a[0])}"
    if t == "dassign":
        return "[" + ", ".join(a[0]) + "] = " + expr(a[1])
    if t == "ddef":
        return "def [" + ", ".join(a[0]) + "] = " + expr(a[1])
    if t == "block":
        return block_src(n)
    if t == "if":
        conds, thens, els = a
        out = ""
        for i, (c, th) in enumerate(zip(conds, thens)):
            out += ("if " if i == 0 else " elif ") + orexpr(c) + " then " + (block_src(th) if th["n"] == "block" else orexpr(th))
        if els:
            out += " else " + (block_src(els[0]) if els[0]["n"] == "block" else orexpr(els[0]))
        return out
    if t == "for":
        ids, what, coll, body = a
        v = ids[0] if len(ids) == 1 else "[" + ", ".join(ids) + "]"
        w = what_src(what, 'values')
        c = expr(coll)
        if what == "values" and len(c) % 3 == 0:      # the default word written out: `for x in values m`
            w = "values "
        return f"for {v} in {w}{c} {body_src(body)}"
    if t == "while":
        body = a[1]
        return f"while {orexpr(a[0])} " + (block_src(body) if body["n"] == "block" else "do " + src(body) + " end")
    if t == "break":
        return "break"
    if t == "continue":
        return "continue"
    if t == "return":
        return "return " + expr(a[0]) if a else "return"
    if t == "error":
        return "error " + expr(a[0])
    if t == "log":
        return f"log({expr(a[0])})"
    if t == "bin":
        return f"{operand(a[0])} {n['s']} {operand(a[1])}"
    if t == "not":
        return "not " + operand(a[0])
    if t in ("and", "or"):
        return f" {t} ".join(operand(x) for x in a)
    if t == "list":
        return "[" + items_src(a) + "]"
    if t == "set":        # blanks keep adjacent closers apart (`>> >>`, not `>>>>`)
        return "<< " + items_src(a) + " >>" if a else "<<>>"
    if t == "map":
        return "<<< " + ", ".join(f"{expr(p[0])} => {expr(p[1])}" for p in a) + " >>>" if a else "<<<>>>"
    if t == "obj":
        return "<*" + ", ".join(f"{chars(p[0])} = {expr(p[1])}" for p in a) + "*>"
    if t == "fn":
        return f"fn({params_src(a[0])}) {body_src(a[1])}"
    if t == "call":
        f = a[0]
        callee = src(f) if f["n"] in ("var", "call", "member", "index") else paren(src(f))
        return f"{callee}({args_src(a[1])})"
    if t == "pipe":
        f = a[0]
        callee = src(f) if f["n"] in ("var", "member") else paren(src(f))       # x !> o->m(a): the member form unparenthesised
        return f"{operand(a[1][0]['a'][0])} !> {callee}({args_src(a[1][1:])})"
    if t == "method":
        return f"{operand(a[0])}->{n['s']}({args_src(a[1])})"
    if t == "member":
        return f"{operand(a[0])}->{n['s']}"
    if t == "index":
        c = a[0]
        base = src(c) if c["n"] in ("var", "call", "index", "member", "list") else paren(src(c))
        return f"{base}[{expr(a[1])}]"
    if t == "each":           # a native that calls the function once per element
        if n["s"] == "lines":
            return f"process_lines({expr(a[0])}, {expr(a[1])})"
        return f"find({expr(a[0])}, 'zz', key = {expr(a[1])})"
    if t == "input":          # the lines of the list literal as one text
        lines = ["".join(chr(c) for c in it["a"][0]["v"]["s"]) for it in a[0]["a"]]
        return "str_input(" + absval.quote("\n".join(lines)) + ")"
    if t == "evalstr":
        return "eval(" + absval.quote(src(a[0])) + ")"
    if t == "compr2":
        kind, val, id1, w1, l1, id2, w2, l2, cond = a
        sep = " for " if n["s"] == "product" else " also for "
        tail = (f" for {id1} in {what_src(w1, '')}{orexpr(l1)}{sep}{id2} in {what_src(w2, '')}{orexpr(l2)}"
                + ("" if cond["n"] == "none" else " if " + orexpr(cond)))
        return ("[" + expr(val) + tail + "]") if kind == "list" else ("<< " + expr(val) + tail + " >>")
    if t == "compr":
        val, ident, what, coll, cond = a
        tail = f" for {ident} in {what_src(what, '')}{orexpr(coll)}" + ("" if cond["n"] == "none" else " if " + orexpr(cond))
        if n["s"] == "list":
            return "[" + expr(val) + tail + "]"
        if n["s"] == "set":
            return "<< " + expr(val) + tail + " >>"
        return "<<< " + expr(val["a"][0]) + " => " + expr(val["a"][1]) + tail + " >>>"
    raise ValueError("node " + t)


def program_src(prog):
    """the root block is the top-level statement list"""
    stmts = prog["a"][0]
    return "; ".join(src(s) for s in stmts)


# ------------------------------------------------------------------ execution
_IT = None


def execute(text):
    # one base environment; a fresh session scope (with its own LOG) per program
    global _IT
    if _IT is None:
        _IT = Interpreter(True, False)
    it = _IT
    it.environment = it.base_environment.newEnv()
    it.interpret(PRELUDE, "prelude")
    import signal

    def _alarm(signum, frame):
        raise TimeoutError("no result within 20 s")
    signal.signal(signal.SIGALRM, _alarm)
    signal.alarm(20)                       # the model terminated: so must the program
    try:
        v = it.interpret(text, "prog")
        out = ("val", norm(absval.to_py(v)))
    except CklRuntimeError as e:
        out = ("err", norm(absval.to_py(e.value)) if hasattr(e.value, "isString") else ("non-value", repr(e.value)))
    except CklSyntaxError as e:
        out = ("syntax", e.msg)
    except RecursionError:
        out = ("host", "RecursionError")
    except Exception as e:  # noqa: BLE001
        out = ("host", type(e).__name__ + ": " + str(e)[:80])
    finally:
        signal.alarm(0)
    try:
        log = norm(absval.to_py(it.interpret("LOG", "obs")))
    except Exception as e:  # noqa: BLE001
        log = ("log-unreadable", type(e).__name__)
    return out, log


SOURCES = []          # sources of the programs judged in this run (C05 reuses them for the block traces)


def check_family(run, cfg, label, sample_at=7):
    """returns number of programs compared"""
    res = run_tlc(cfg, timeout=3400)
    run.add_tlc(res, label)
    seen = set()
    n = 0
    for rec in res.records("RUN"):
        key = tuple(rec["id"])
        if key in seen:
            continue
        seen.add(key)
        if rec["out"]["t"] == "fuel":
            run.drift("model-fuel-exhausted", list(key))
            continue
        n += 1
        judge(run, rec)
        if n == sample_at:
            run.sample({"id": rec["id"], "source": program_src(rec["prog"]), "model_outcome": rec["out"]["t"],
                        "model_value": str(val_py(rec["out"]["v"])), "model_log": str([val_py(x) for x in rec["log"]])})
    if n == 0:
        raise MachineryError(f"{cfg}: no programs exported")
    return n


def judge(run, rec):
    text = program_src(rec["prog"])
    SOURCES.append(text)
    want_out = (rec["out"]["t"], norm(val_py(rec["out"]["v"])))
    want_log = ("list", tuple(norm(val_py(x)) for x in rec["log"]))
    out, log = execute(text)
    case = {"id": rec["id"], "rec": rec}
    pid = "/".join(str(x) for x in rec["id"])
    if out[0] == "host":
        run.violation(f"host:{pid}:{text}", f"host-exception: {out[1]} running {text!r}", case)
        return
    if out[0] == "syntax":
        run.violation(f"syntax:{pid}:{text}", f"generated-program-rejected: {out[1]} for {text!r}", case)
        return
    if out != want_out:
        run.violation(f"outcome:{pid}:{text}", f"outcome: {text!r} gives {out}, the language model gives {want_out}", case)
    elif log != want_log:
        run.violation(f"log:{pid}:{text}", f"observation-log: {text!r} logs {log[1] if isinstance(log, tuple) else log}, "
                      f"the language model logs {want_log[1]}", case)


def replay(run, case):
    judge(run, case["rec"])


CONFIGS = {
    "scope": {"quick": ["MC_scope"], "thorough": ["MC_scope"]},
    "loop": {"quick": ["MC_loop"], "thorough": ["MC_loop"]},
    "err": {"quick": ["MC_err"], "thorough": ["MC_err_t"]},
}
ASSUMPTIONS = [
    "the generated programs use ints, booleans, strings, lists, sets, maps, objects and closures; decimals and dates are not part of these families",
    "function values are compared by kind only",
]


def check_random(run, flavour, n, label):
    """seeded random programs: TLC (MachineRand) is the oracle, the real interpreter the subject"""
    import json, os, random, tempfile
    from . import proggen
    rng = random.Random(run.seed * 7919 + {"scope": 1, "loop": 2, "err": 3}[flavour])
    progs = proggen.programs(rng, flavour, n)
    d = tempfile.mkdtemp(prefix="mrand-")
    CH = 4000                      # programs per TLC run (one state per program; larger runs got slow)
    recs = []
    try:
        for c0 in range(0, len(progs), CH):
            path = os.path.join(d, f"progs{c0}.ndjson")
            with open(path, "w") as f:
                for p in progs[c0:c0 + CH]:
                    f.write(json.dumps(p) + "\n")
            res = run_tlc("MachineRand", env={"PROG_FILE": path}, timeout=3400)
            os.remove(path)
            run.add_tlc(res, label + (f" [{c0 + 1}..{min(c0 + CH, len(progs))}]" if len(progs) > CH else ""))
            for rec in res.records("RUN"):
                rec["id"][1] += c0
                recs.append(rec)
    finally:
        import shutil
        shutil.rmtree(d, ignore_errors=True)
    seen = set()
    m = 0
    for rec in recs:
        k = rec["id"][1]
        if k in seen:
            continue
        seen.add(k)
        if rec["out"]["t"] == "fuel":
            run.drift("model-fuel-exhausted", ["r", k])
            continue
        rec["prog"] = progs[k - 1]
        rec["id"] = ["r", flavour, k]
        judge(run, rec)
        m += 1
        if m == 3:
            run.sample({"id": rec["id"], "source": program_src(rec["prog"]), "model_outcome": rec["out"]["t"],
                        "model_log": str([val_py(x) for x in rec["log"]])})
    if len(seen) != len(progs):
        raise MachineryError(f"MachineRand evaluated {len(seen)} of {len(progs)} programs")
    return m
