"""C03, binding B: record what the real interpreter does with its environment
chain and validate it with spec/Env_Trace.tla.

Nothing in /repo is changed.  While recording, the classes are wrapped from
outside:
  Environment.__init__   every frame gets a sequence number and a table that
                         reports which frame a name was read from / stored in
                         (a dict subclass: the observation is the access itself,
                         not a re-computation of the lookup);
  Environment.put/set/get/remove/withParent   one event per outermost call;
  NodeLambda.evaluate    a closure is created in a frame;
  FuncLambda.execute     a closure is called (the next `frame` is its frame).
"""
import json
import os
import tempfile

from .common import import_ckl, MachineryError
from .tla import run_tlc

import_ckl()
import ckl.functions as F  # noqa: E402
import ckl.nodes as N  # noqa: E402

EVENTS = []
ENABLED = [False]
_IDS = [0]
_CIDS = [0]
_OPEN = []          # stack of accesses being observed: dict(kind, name, hits)
_ORIG = {}


def _fid(env):
    return getattr(env, "_vid", 0) if env is not None else 0


class _Table(dict):
    """a frame's name table; reports reads and stores to the operation being observed"""
    __slots__ = ("fid",)

    def __getitem__(self, k):
        if _OPEN and _OPEN[-1]["kind"] == "get" and _OPEN[-1]["name"] == k:
            _OPEN[-1]["hits"].append(self.fid)
        return dict.__getitem__(self, k)

    def __setitem__(self, k, v):
        if ENABLED[0]:
            if _OPEN and _OPEN[-1]["kind"] in ("put", "set") and _OPEN[-1]["name"] == k:
                _OPEN[-1]["hits"].append(self.fid)
            else:                       # a store that is not part of put/set: a definition in this frame
                EVENTS.append({"e": "put", "f": self.fid, "x": str(k), "g": self.fid})
        dict.__setitem__(self, k, v)


def _observe(kind, env, name, call):
    """run call(); log one event for the outermost put/set/get"""
    if not ENABLED[0] or (_OPEN and _OPEN[-1]["kind"] == kind and _OPEN[-1]["name"] == name and kind != "put"):
        return call()                   # the recursion of set/get up the chain belongs to the open operation
    rec = {"kind": kind, "name": name, "hits": []}
    _OPEN.append(rec)
    try:
        return call()
    finally:
        _OPEN.pop()
        hits = rec["hits"]
        g = hits[0] if len(hits) == 1 else (0 if not hits else -3)      # -3: several frames touched
        EVENTS.append({"e": kind, "f": _fid(env), "x": str(name), "g": g})


def install():
    if _ORIG:
        return
    E = F.Environment
    for m in ("__init__", "put", "set", "get", "remove", "withParent"):
        _ORIG[m] = getattr(E, m)
    _ORIG["lambda"] = N.NodeLambda.evaluate
    _ORIG["execute"] = F.FuncLambda.execute

    def __init__(self, parent=None):
        _ORIG["__init__"](self, parent)
        _IDS[0] += 1
        self._vid = _IDS[0]
        t = _Table(self.map)
        t.fid = self._vid
        self.map = t
        if ENABLED[0]:
            EVENTS.append({"e": "frame", "f": self._vid, "p": _fid(parent)})

    def put(self, name, value):
        return _observe("put", self, name, lambda: _ORIG["put"](self, name, value))

    def set(self, name, value):
        return _observe("set", self, name, lambda: _ORIG["set"](self, name, value))

    def get(self, symbol, pos=None):
        return _observe("get", self, symbol, lambda: _ORIG["get"](self, symbol, pos))

    def remove(self, name):
        if ENABLED[0]:
            EVENTS.append({"e": "remove", "f": _fid(self), "x": str(name)})
        return _ORIG["remove"](self, name)

    def withParent(self, parent):
        if ENABLED[0]:
            EVENTS.append({"e": "reparent", "f": _fid(self), "p": _fid(parent)})
        return _ORIG["withParent"](self, parent)

    def lam(self, environment):
        r = _ORIG["lambda"](self, environment)
        if ENABLED[0]:
            _CIDS[0] += 1
            try:
                r._vcid = _CIDS[0]
            except AttributeError:
                return r
            EVENTS.append({"e": "closure", "c": r._vcid, "f": _fid(environment)})
        return r

    def execute(self, args, environment, pos):
        if ENABLED[0]:
            EVENTS.append({"e": "call", "c": getattr(self, "_vcid", 0)})
        return _ORIG["execute"](self, args, environment, pos)

    E.__init__, E.put, E.set, E.get, E.remove, E.withParent = __init__, put, set, get, remove, withParent
    N.NodeLambda.evaluate = lam
    F.FuncLambda.execute = execute


def uninstall():
    if not _ORIG:
        return
    E = F.Environment
    for m in ("__init__", "put", "set", "get", "remove", "withParent"):
        setattr(E, m, _ORIG[m])
    N.NodeLambda.evaluate = _ORIG["lambda"]
    F.FuncLambda.execute = _ORIG["execute"]
    _ORIG.clear()
    ENABLED[0] = False
    del _OPEN[:]


def record(progs, alarm=20):
    """progs: [(source, legacy?)]; returns (events, metas) - metas[k] = source the event belongs to.
    Interpreters are built while recording, so the base library's frames and closures are known."""
    import signal
    from ckl.interpreter import Interpreter
    from ckl.values import StringOutput
    install()
    try:
        ENABLED[0] = True
        del EVENTS[:]
        its = {}
        metas = []
        persisted = set()

        def _alarm(signum, frame):
            raise TimeoutError()
        signal.signal(signal.SIGALRM, _alarm)

        def persist(it):
            for env in [it.base_environment] + list(it.base_environment.modules.values()):
                if _fid(env) and _fid(env) not in persisted:
                    persisted.add(_fid(env))
                    EVENTS.append({"e": "persist", "f": _fid(env)})

        for text, legacy in progs:
            if legacy not in its:
                it = its[legacy] = Interpreter(not legacy, legacy)
                it.setStandardOutput(StringOutput())
                persist(it)
                metas += ["<library>"] * (len(EVENTS) - len(metas))
            it = its[legacy]
            EVENTS.append({"e": "reset"})
            it.environment = it.base_environment.newEnv()
            signal.alarm(alarm)
            try:
                it.interpret(text, "env")
            except BaseException:  # noqa: BLE001 - outcomes are judged by binding A; here only the events count
                pass
            finally:
                signal.alarm(0)
                del _OPEN[:]
            persist(it)
            metas += [text] * (len(EVENTS) - len(metas))
        ENABLED[0] = False
        return list(EVENTS), metas
    finally:
        uninstall()
        del EVENTS[:]


def validate(run, events, metas, label, chunk=60000):
    """validate in chunks cut at `reset` events; each chunk is preceded by the library prefix"""
    first = next((k for k, e in enumerate(events) if e["e"] == "reset"), len(events))
    # programs of the two interpreters interleave; keep every pre-program event (library loading,
    # persist) in the prefix of every chunk
    lib = [k for k, m in enumerate(metas) if m == "<library>"]
    rest = [k for k in range(len(events)) if metas[k] != "<library>"]
    chunks, cur = [], []
    for k in rest:
        if events[k]["e"] == "reset" and len(cur) >= chunk:
            chunks.append(cur)
            cur = []
        cur.append(k)
    if cur:
        chunks.append(cur)
    stats = {"bad": 0, "unchecked": 0, "events": 0}
    for ci, ch in enumerate(chunks):
        idx = lib + ch
        d = tempfile.mkdtemp(prefix="env-")
        path = os.path.join(d, "trace.ndjson")
        try:
            with open(path, "w") as f:
                for k in idx:
                    f.write(json.dumps(events[k]) + "\n")
            res = run_tlc("Env_Trace", workers=1, env={"TRACE_FILE": path}, timeout=3000)
        finally:
            try:
                os.remove(path)
                os.rmdir(d)
            except OSError:
                pass
        run.add_tlc(res, f"{label} [{ci + 1}/{len(chunks)}]")
        done = res.records("DONE")
        if not done or done[-1]["n"] != len(idx):
            raise MachineryError("Env_Trace did not consume the whole trace")
        stats["events"] += len(ch)
        stats["unchecked"] += len(res.records("UNCHECKED"))
        for b in res.records("BAD"):
            k = idx[b["l"] - 1]
            src = metas[k]
            stats["bad"] += 1
            run.violation(f"env-rule:{b['rule']}:{src}",
                          f"environment-chain: rule `{b['rule']}` broken at event {json.dumps(events[k])} while running {src!r}",
                          {"kind": "envtrace", "src": src})
    return stats
