"""C04 - see harness/machine.py, spec/Machine.tla, spec/MachineGen.tla, spec/MachineRun.tla."""
from . import machine

FAMILY = "loop"


def run(run):
    quick = run.tier == "quick"
    cfgs = machine.CONFIGS[FAMILY]["quick" if quick else "thorough"]
    n = 0
    for cfg in cfgs:
        n += machine.check_family(run, cfg, f"Machine ({cfg})")
    nr = machine.check_random(run, FAMILY, 4000 if quick else 30000, "MachineRand: seeded random programs")
    run.cov["random_programs"] = nr
    n += nr
    n += flow_traces(run, quick)
    run.cov["traces_validated_against_impl"] = n
    run.cov["evaluations"] = n
    run.cov["distinct_nontrivial"] = n
    run.cov["rule"] = "distinct programs (parameter tuples of MachineGen, and seeded random syntax trees of harness/proggen.py evaluated by MachineRand) whose model run terminated; each rendered and executed once"
    run.cov["exhaustive"] = True
    run.assumptions += machine.ASSUMPTIONS


EXTRA = [
    # sources the generated families do not iterate over: sets and maps of strings, destructured entries, strings
    "def r = []; for s in <<'b', 'a', 'c', 'ab'>> do append(r, s) end; r",
    "def r = []; for k in keys <<<'b' => 1, 'a' => 2, 'c' => 3>>> do append(r, k) end; r",
    "def r = []; for v in <<<'b' => 1, 'a' => 2, 'c' => 3>>> do append(r, v) end; r",
    "def r = []; for e in entries <<<3 => 'x', 1 => 'y', 2 => 'z'>>> do append(r, e) end; r",
    "def r = []; for [k, v] in entries <<<3 => 'x', 1 => 'y', 2 => 'z'>>> do if k == 2 then continue; append(r, [v, k]) end; r",
    "def r = []; for [a, b, c] in [[1, 2], [3, 4, 5], <<7, 6>>] do append(r, [a, b, c]) end; r",
    "def r = []; for c in 'hello' do if c == 'l' then break; append(r, c) end; r",
    "def r = []; for x in <<5, 3, 9, 1>> do for y in <<2, 1>> do if y == 2 then break; append(r, [x, y]) end end; r",
    "def f(m) do for k in keys m do if m[k] == 2 then return k end; 'none' end; [f(<<<'q' => 2, 'p' => 2>>>), f(<<<1 => 1>>>)]",
    "def i = 0; def r = []; while i < 5 do i += 1; if i % 2 == 0 then continue; if i > 4 then break; append(r, i) end; r",
    "def l = [1]; for x in l do if x < 4 then append(l, x + 1) end; l",
    "if 1 > 2 then 'a' elif 2 > 3 then 'b' elif 3 > 2 then 'c' elif TRUE then 'd' else 'e'",
    "def f(x) do if x then return 1; 2 end; [f(TRUE), f(FALSE)]",
    "do for x in 5 do x end catch all 'not iterable' end",
    "do if 1 then 2 end catch all 'not boolean' end",
    "do while 'x' do 1 end catch all 'not boolean' end",
    "def f() do break end; do f() catch all 'stray' end",
    # a set / map changed between two loops over it: each loop takes the elements the collection has THEN
    "def s = <<3, 1>>; def r = []; for x in s do append(r, x) end; remove(s, 3); append(s, 2); for x in s do append(r, x) end; r",
    "def s = <<3, 1>>; def r = [string(s)]; remove(s, 1); append(s, 0); for x in s do append(r, x) end; append(s, 5); remove(s, 0); for x in s do append(r, x) end; r",
    "def m = <<<2 => 'b', 1 => 'a'>>>; def r = []; for k in keys m do append(r, k) end; remove(m, 1); m[0] = 'z'; for k in keys m do append(r, k) end; for v in m do append(r, v) end; r",
    "def s = <<2>>; def r = []; for i in [1, 2, 3] do append(s, i * 10); for x in s do append(r, x) end end; r",
]


def flow_traces(run, quick):
    """binding B: every conditional, loop and function body the real evaluator runs (generated programs, the
    repository's own test programs, the library code they call) validated by Flow_Trace.tla"""
    import random
    from . import flowtrace as ft
    from .c05 import repo_test_programs
    rng = random.Random(run.seed + 4)
    gen = sorted(set(machine.SOURCES))
    gen = rng.sample(gen, min(len(gen), 1500 if quick else 15000))
    progs = [(machine.PRELUDE + g, False) for g in gen] + [(t, False) for t in EXTRA] + [(t, True) for t in repo_test_programs()]
    events, metas = ft.record(progs)
    stats = ft.validate(run, events, metas, "Flow_Trace: conditionals, loops and function bodies as the real evaluator runs them")
    kinds = {}
    for e in events:
        if e["e"] == "enter":
            kinds[e["c"]] = kinds.get(e["c"], 0) + 1
        elif e["e"] == "coll":
            kinds["for over " + e["kind"]] = kinds.get("for over " + e["kind"], 0) + 1
    run.cov["flow_trace_events"] = len(events)
    run.cov["flow_trace_constructs"] = kinds
    run.cov["flow_trace_unchecked_orders"] = stats["unchecked"]
    run.sample({"flow_trace": events[1:14], "of": metas[1][:200]})
    return len(progs)


def replay(run, case):
    if case.get("kind") == "flowtrace":
        from . import flowtrace as ft
        events, metas = ft.record([(case["src"], True)])
        ft.validate(run, events, metas, "Flow_Trace (replay)")
        return
    return machine.replay(run, case)
