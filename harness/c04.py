"""C04 - see harness/machine.py, spec/Machine.tla, spec/MachineGen.tla, spec/MachineRun.tla."""
from . import machine

FAMILY = "loop"


def run(run):
    quick = run.tier == "quick"
    cfgs = machine.CONFIGS[FAMILY]["quick" if quick else "thorough"]
    n = 0
    for cfg in cfgs:
        n += machine.check_family(run, cfg, f"Machine ({cfg})")
    nr = machine.check_random(run, FAMILY, 4000 if quick else 30000, "MachineRand: seeded random programs")
    run.cov["random_programs"] = nr
    n += nr
    n += flow_traces(run, quick)
    n += reentrant(run)
    run.cov["traces_validated_against_impl"] = n
    run.cov["evaluations"] = n
    run.cov["distinct_nontrivial"] = n
    run.cov["rule"] = "distinct programs (parameter tuples of MachineGen, and seeded random syntax trees of harness/proggen.py evaluated by MachineRand) whose model run terminated; each rendered and executed once"
    run.cov["exhaustive"] = True
    run.assumptions += machine.ASSUMPTIONS


# a comprehension that is evaluated again while it is still running (the function it stands in recurses from its
# source, its value or its condition): every evaluation has loop variables of its own, like the explicit loop
REENTRANT = [
    ("def tri(n) do if n == 0 then return []; [x + n for x in tri(n - 1)] + [n] end; tri(3)", "[6, 5, 3]"),
    ("def walk(t) if is_list(t) then [walk(c) for c in t] else t * 2; walk([1, [2, [3, 4]], 5])", "[2, [4, [6, 8]], 10]"),
    ("def p(n) if n == 0 then [[]] else [[a] + r for a in [0, 1] for r in p(n - 1)]; p(2)", "[[0, 0], [0, 1], [1, 0], [1, 1]]"),
    ("def s(n) if n == 0 then <<0>> else <<x + n for x in s(n - 1)>> + <<n>>; s(3)", "<<3, 5, 6>>"),
    ("def m(n) if n == 0 then <<<0 => 0>>> else <<<k + n => n for k in keys m(n - 1)>>>; m(2)", "<<<3 => 2>>>"),
    ("def d(n) if n == 0 then [] else [[x, n] for x in [n] if length(d(n - 1)) >= 0]; d(3)", "[[3, 3]]"),
    ("def tri(n) do if n == 0 then return []; def r = []; for x in tri(n - 1) do append(r, x + n) end; r + [n] end; tri(3)", "[6, 5, 3]"),
]


def reentrant(run):
    from ckl.interpreter import Interpreter
    from . import absval
    n = 0
    for src, want in REENTRANT:
        it = Interpreter(True, False)
        for rep in (1, 2):               # (a second evaluation in the same interpreter)
            o = absval.outcome(lambda: it.interpret(src, "c04"))
            w = absval.outcome(lambda: Interpreter(True, False).interpret(want, "c04"))
            n += 1
            if o[0] != "val" or w[0] != "val" or not absval.strict_eq(absval.to_py(o[1]), absval.to_py(w[1])):
                got = absval.to_py(o[1]) if o[0] in ("val", "err") else o[1:]
                run.violation("reentrant:" + src, f"comprehension-equals-loop: {src!r} should yield {want}, got {o[0]} {got!r}",
                              {"kind": "reentrant", "src": src, "want": want})
                break
    return n


EXTRA = [
    # sources the generated families do not iterate over: sets and maps of strings, destructured entries, strings
    "def r = []; for s in <<'b', 'a', 'c', 'ab'>> do append(r, s) end; r",
    "def r = []; for k in keys <<<'b' => 1, 'a' => 2, 'c' => 3>>> do append(r, k) end; r",
    "def r = []; for v in <<<'b' => 1, 'a' => 2, 'c' => 3>>> do append(r, v) end; r",
    "def r = []; for e in entries <<<3 => 'x', 1 => 'y', 2 => 'z'>>> do append(r, e) end; r",
    "def r = []; for [k, v] in entries <<<3 => 'x', 1 => 'y', 2 => 'z'>>> do if k == 2 then continue; append(r, [v, k]) end; r",
    "def r = []; for [a, b, c] in [[1, 2], [3, 4, 5], <<7, 6>>] do append(r, [a, b, c]) end; r",
    "def r = []; for c in 'hello' do if c == 'l' then break; append(r, c) end; r",
    "def r = []; for x in <<5, 3, 9, 1>> do for y in <<2, 1>> do if y == 2 then break; append(r, [x, y]) end end; r",
    "def f(m) do for k in keys m do if m[k] == 2 then return k end; 'none' end; [f(<<<'q' => 2, 'p' => 2>>>), f(<<<1 => 1>>>)]",
    "def i = 0; def r = []; while i < 5 do i += 1; if i % 2 == 0 then continue; if i > 4 then break; append(r, i) end; r",
    "def l = [1]; for x in l do if x < 4 then append(l, x + 1) end; l",
    "if 1 > 2 then 'a' elif 2 > 3 then 'b' elif 3 > 2 then 'c' elif TRUE then 'd' else 'e'",
    "def f(x) do if x then return 1; 2 end; [f(TRUE), f(FALSE)]",
    "do for x in 5 do x end catch all 'not iterable' end",
    "do if 1 then 2 end catch all 'not boolean' end",
    "do while 'x' do 1 end catch all 'not boolean' end",
    "def f() do break end; do f() catch all 'stray' end",
    # a set / map changed between two loops over it: each loop takes the elements the collection has THEN
    "def s = <<3, 1>>; def r = []; for x in s do append(r, x) end; remove(s, 3); append(s, 2); for x in s do append(r, x) end; r",
    "def s = <<3, 1>>; def r = [string(s)]; remove(s, 1); append(s, 0); for x in s do append(r, x) end; append(s, 5); remove(s, 0); for x in s do append(r, x) end; r",
    "def m = <<<2 => 'b', 1 => 'a'>>>; def r = []; for k in keys m do append(r, k) end; remove(m, 1); m[0] = 'z'; for k in keys m do append(r, k) end; for v in m do append(r, v) end; r",
    "def s = <<2>>; def r = []; for i in [1, 2, 3] do append(s, i * 10); for x in s do append(r, x) end end; r",
]


def flow_traces(run, quick):
    """binding B: every conditional, loop and function body the real evaluator runs (generated programs, the
    repository's own test programs, the library code they call) validated by Flow_Trace.tla"""
    import random
    from . import flowtrace as ft
    from .c05 import repo_test_programs
    rng = random.Random(run.seed + 4)
    gen = sorted(set(machine.SOURCES))
    gen = rng.sample(gen, min(len(gen), 1500 if quick else 15000))
    progs = [(machine.PRELUDE + g, False) for g in gen] + [(t, False) for t in EXTRA] + [(t, False) for t, _ in REENTRANT] + [(t, True) for t in repo_test_programs()]
    events, metas = ft.record(progs)
    stats = ft.validate(run, events, metas, "Flow_Trace: conditionals, loops and function bodies as the real evaluator runs them")
    kinds = {}
    for e in events:
        if e["e"] == "enter":
            kinds[e["c"]] = kinds.get(e["c"], 0) + 1
        elif e["e"] == "coll":
            kinds["for over " + e["kind"]] = kinds.get("for over " + e["kind"], 0) + 1
    run.cov["flow_trace_events"] = len(events)
    run.cov["flow_trace_constructs"] = kinds
    run.cov["flow_trace_unchecked_orders"] = stats["unchecked"]
    run.sample({"flow_trace": events[1:14], "of": metas[1][:200]})
    return len(progs)


def replay(run, case):
    if case.get("kind") == "reentrant":
        reentrant(run)
        return
    if case.get("kind") == "flowtrace":
        from . import flowtrace as ft
        events, metas = ft.record([(case["src"], True)])
        ft.validate(run, events, metas, "Flow_Trace (replay)")
        return
    return machine.replay(run, case)
