"""Shared plumbing of the checks: repo import, evidence, known findings, verdicts.

Verdict rules (DESIGN.md 2.4): a check exits 1 only for an observation of the
real code that the property forbids and that is not a listed known finding;
exit 2 is a machinery failure (TLC error on the spec itself, harness crash).
"""
import hashlib
import json
import os
import sys
import time

VERIF = os.path.dirname(os.path.dirname(os.path.abspath(__file__)))
REPO = os.environ.get("VERIF_REPO", "/repo")
SPEC = os.path.join(VERIF, "spec")
EVID = os.path.join(VERIF, "evidence")
REPLAY = os.path.join(VERIF, "replay")
KNOWN = os.path.join(VERIF, "known_findings.json")
GUARD = "CKL_VERIF"


def import_ckl():
    """Import ckl from the current working tree of the repository."""
    src = os.path.join(REPO, "src")
    if sys.path[0] != src:
        sys.path.insert(0, src)
    import ckl
    assert os.path.abspath(ckl.__file__).startswith(os.path.abspath(src)), ckl.__file__
    return ckl


class MachineryError(Exception):
    pass


class Run:
    def __init__(self, pid, tier, seed, level="model_checking"):
        self.pid = pid
        self.tier = tier
        self.seed = seed
        self.level = level
        self.t0 = time.time()
        self.cov = {
            "states": 0,
            "transitions": 0,
            "traces_validated_against_impl": 0,
            "evaluations": 0,
            "distinct_nontrivial": 0,
            "rule": "",
            "samples": [],
            "exhaustive": False,
            "tlc_runs": [],
            "drift": {},
        }
        self.assumptions = []
        self.violations = []      # (key, what, case)
        self.known_hit = {}       # key -> what
        self._known = None
        self._seen_keys = set()

    # -- known findings -------------------------------------------------
    def known(self):
        if self._known is None:
            self._known = {}
            if os.path.exists(KNOWN):
                with open(KNOWN) as f:
                    data = json.load(f)
                for e in data.get("findings", []):
                    if e["property"] == self.pid:
                        self._known[e["key"]] = e.get("what", "")
        return self._known

    def violation(self, key, what, case):
        """Report one observation of the code that contradicts the property.
        key identifies the specific failing input/history (used to match
        known findings)."""
        if key in self._seen_keys:
            return
        self._seen_keys.add(key)
        if key in self.known():
            self.known_hit[key] = what
        else:
            self.violations.append((key, what, case))

    # -- coverage -------------------------------------------------------
    def add_tlc(self, res, label=None):
        self.cov["states"] += res.distinct
        self.cov["transitions"] += res.generated
        entry = {
            "label": label or res.label,
            "spec": res.spec,
            "cfg": res.cfg,
            "mode": res.mode,
            "distinct_states": res.distinct,
            "states_generated": res.generated,
            "depth": res.depth,
            "wall_s": round(res.wall, 2),
            "ok": res.ok,
        }
        if res.coverage:
            entry["actions"] = res.coverage
            never = [a for a, n in res.coverage.items() if n == 0]
            if never:
                entry["actions_never_taken"] = never
        self.cov["tlc_runs"].append(entry)

    def drift(self, kind, sample=None):
        d = self.cov["drift"].setdefault(kind, {"count": 0, "samples": []})
        d["count"] += 1
        if sample is not None and len(d["samples"]) < 5:
            d["samples"].append(sample)

    def sample(self, case, limit=8):
        if len(self.cov["samples"]) < limit:
            self.cov["samples"].append(case)

    # -- finish ----------------------------------------------------------
    def finish(self):
        os.makedirs(EVID, exist_ok=True)
        os.makedirs(REPLAY, exist_ok=True)
        lines = []
        for key, what in sorted(self.known_hit.items()):
            lines.append(f"KNOWN-FINDING: property={self.pid} {key} :: {what}")
        vio_out = []
        if os.environ.get("VERIF_VERBOSE"):
            for key, what, case in self.violations:
                print("V|", what[:300])
        for key, what, case in self.violations[:50]:
            h = hashlib.sha1(key.encode("utf-8", "replace")).hexdigest()[:12]
            path = os.path.join(REPLAY, f"{self.pid}-{h}.json")
            with open(path, "w") as f:
                json.dump({"property": self.pid, "key": key, "what": what,
                           "case": case}, f, indent=1, default=str)
            lines.append(f"VIOLATION property={self.pid} replay={path}")
            lines.append(f"  {key} :: {what}")
            vio_out.append({"key": key, "what": what})
        if len(self.violations) > 50:
            lines.append(f"  ... and {len(self.violations) - 50} more violations")
        if len(self.violations) > 5:
            cats = {}
            for key, what, case in self.violations:
                c = what.split(":")[0][:60]
                cats.setdefault(c, [0, key])
                cats[c][0] += 1
            for c, (n, k) in sorted(cats.items(), key=lambda x: -x[1][0])[:25]:
                lines.append(f"  category {c!r}: {n} violations, e.g. {k[:100]}")
        ev = {
            "property_id": self.pid,
            "tier": self.tier,
            "seed": self.seed,
            "level": self.level,
            "coverage": self.cov,
            "assumptions": self.assumptions,
            "wall_s": round(time.time() - self.t0, 2),
            "violations": len(self.violations),
            "violation_keys": vio_out[:20],
            "known_findings_hit": sorted(self.known_hit),
        }
        if not self.cov["samples"]:
            raise MachineryError("no samples recorded")
        with open(os.path.join(EVID, f"{self.pid}.json"), "w") as f:
            json.dump(ev, f, indent=1, default=str)
        for ln in lines:
            print(ln)
        print(f"{self.pid} {self.tier}: states={self.cov['states']} "
              f"transitions={self.cov['transitions']} "
              f"impl_traces={self.cov['traces_validated_against_impl']} "
              f"evaluations={self.cov['evaluations']} "
              f"violations={len(self.violations)} known={len(self.known_hit)} "
              f"wall={ev['wall_s']}s")
        return 1 if self.violations else 0


def chunks(seq, n):
    for i in range(0, len(seq), n):
        yield seq[i:i + n]
