"""ckl values <-> plain Python / JSON abstractions (both directions)."""
import datetime

from .common import import_ckl

import_ckl()
from ckl import values as V  # noqa: E402
from ckl.errors import CklRuntimeError, CklSyntaxError  # noqa: E402


def to_py(v):
    """Abstract a ckl value as a hashable, comparable Python structure that
    distinguishes kinds: ints and decimals differ, lists/sets/maps differ."""
    if v is None:
        return ("pynone",)
    if isinstance(v, V.ValueNull):
        return None
    if isinstance(v, V.ValueBoolean):
        return bool(v.value)
    if isinstance(v, V.ValueInt):
        if isinstance(v.value, float):
            return ("int-holding-float", v.value)
        return int(v.value)
    if isinstance(v, V.ValueDecimal):
        return ("dec", float(v.value))
    if isinstance(v, V.ValueString):
        return ("str", v.value)
    if isinstance(v, V.ValueList):
        return ("list", tuple(to_py(x) for x in v.value))
    if isinstance(v, V.ValueSet):
        return ("set", frozenset(to_py(x) for x in v.value))
    if isinstance(v, V.ValueMap):
        return ("map", frozenset((to_py(k), to_py(x)) for k, x in v.value.items()))
    if isinstance(v, V.ValueDate):
        return ("date", v.value.isoformat())
    if isinstance(v, V.ValuePattern):
        return ("pat", v.value)
    if isinstance(v, V.ValueObject):
        return ("obj", tuple((k, to_py(x)) for k, x in v.value.items()))
    if isinstance(v, V.ValueFunc):
        return ("func", v.name)
    return ("other", type(v).__name__)


def tagged(p):
    """the same structure with booleans made distinguishable from ints: in Python True == 1 and
    hash(True) == hash(1), also inside tuples and frozensets, so a plain comparison of to_py() values
    cannot tell TRUE from 1 (or FALSE from 0)"""
    if isinstance(p, bool):
        return ("bool", "T" if p else "F")
    if isinstance(p, tuple):
        return tuple(tagged(x) for x in p)
    if isinstance(p, frozenset):
        return frozenset(tagged(x) for x in p)
    if isinstance(p, list):
        return [tagged(x) for x in p]
    return p


def strict_eq(a, b):
    """equality of to_py() abstractions that keeps booleans and ints apart"""
    return tagged(a) == tagged(b)


class _Watchdog(Exception):
    pass


def _wd(signum, frame):
    raise _Watchdog()


def outcome(fn, limit=20):
    """Run fn(); classify: ('val', value) | ('err', error value, exc) |
    ('syntax', msg, exc) | ('host', exception class name, text).  A call that
    does not return within `limit` seconds is ('host', 'Timeout', ..) - unless
    the caller already runs its own alarm (then that one stays in charge)."""
    import signal
    import threading
    own = (threading.current_thread() is threading.main_thread()
           and signal.getitimer(signal.ITIMER_REAL)[0] == 0)
    if own:
        old = signal.signal(signal.SIGALRM, _wd)
        signal.alarm(limit)
    try:
        return ("val", fn())
    except CklRuntimeError as e:
        return ("err", e.value, e)
    except CklSyntaxError as e:
        return ("syntax", e.msg, e)
    except _Watchdog:
        return ("host", "Timeout", f"no result within {limit} s")
    except RecursionError:
        return ("host", "RecursionError", "")
    except Exception as e:  # noqa: BLE001 - the point is to see what escapes
        return ("host", type(e).__name__, str(e)[:120])
    finally:
        if own:
            signal.alarm(0)
            signal.signal(signal.SIGALRM, old)


def lit(x):
    """Python abstraction -> checkerlang source literal."""
    if x is None:
        return "NULL"
    if x is True:
        return "TRUE"
    if x is False:
        return "FALSE"
    if isinstance(x, int):
        return str(x)
    if isinstance(x, float):
        return repr(x)
    if isinstance(x, str):
        return quote(x)
    if isinstance(x, (list, tuple)):
        return "[" + ", ".join(lit(i) for i in x) + "]"
    raise TypeError(x)


def quote(s):
    out = s.replace("\\", "\\\\").replace("'", "\\'").replace("\n", "\\n")
    out = out.replace("\r", "\\r").replace("\t", "\\t")
    return "'" + out + "'"
