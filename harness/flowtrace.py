"""C04, binding B: record how the real evaluator runs conditionals, loops and
function bodies and validate it with spec/Flow_Trace.tla.

Nothing in /repo is changed: `ckl.parser.parse` is wrapped so that every tree
leaving the parser (programs, base library, bundled modules) gets its NodeIf /
NodeFor / NodeWhile nodes - and their conditions, branches, sources and bodies,
and the body of every lambda - replaced by logging proxies; FuncLambda.execute is
wrapped for the call / leave events.  The unmodified evaluate methods drive the
proxies.
"""
import json
import os
import tempfile

from .common import import_ckl, MachineryError
from .tla import run_tlc

import_ckl()
import ckl.parser  # noqa: E402
import ckl.nodes as N  # noqa: E402
import ckl.functions as F  # noqa: E402
from ckl.errors import CklRuntimeError  # noqa: E402

EVENTS = []
ENABLED = [False]
_COUNTER = [0]
_ACTIVE = {}        # id(node) -> stack of instance records
_CALLS = []         # stack of call instance ids
_ORIG = {}
MAXEL = 120


def _text(v):
    try:
        return (v.type() if hasattr(v, "type") else type(v).__name__) + ":" + str(v)[:60]
    except Exception:  # noqa: BLE001
        return "<unrenderable>"


def _outcome(r):
    try:
        if r.isReturn():
            return "return"
        if r.isBreak():
            return "break"
        if r.isContinue():
            return "continue"
    except AttributeError:
        pass
    return "val"


def _items(v):
    try:
        if v.isList():
            return [_text(x) for x in v.value[:8]]
        if v.isSet():
            return [_text(x) for x in v.getSortedItems()[:8]]
    except Exception:  # noqa: BLE001
        pass
    return []


def _el(v):
    k, n, s = "other", 0, []
    try:
        if v.isInt() and abs(v.value) < 2 ** 31:
            k, n = "int", v.value
        elif v.isString() and len(v.value) <= 60:
            k, s = "str", [ord(c) for c in v.value]
    except Exception:  # noqa: BLE001
        pass
    return {"k": k, "n": n, "s": s, "t": _text(v), "items": _items(v)}


def _snapshot(v):
    """(kind, elements in storage order)"""
    try:
        if v.isList():
            return "list", []                       # lists are iterated live: see `iter`
        if v.isString():
            if len(v.value) > MAXEL:
                return "unmodelled", []
            from ckl.values import ValueString
            return "string", [_el(ValueString(c)) for c in v.value]
        if v.isSet():
            if len(v.value) > MAXEL:
                return "unmodelled", []
            return "set", [_el(x) for x in v.value]
        if v.isMap():
            if len(v.value) > MAXEL:
                return "unmodelled", []
            return "map", [{"key": _el(k), "val": _el(x)} for k, x in v.value.items()]
        if v.isObject():
            return "object", []
        if v.isInput():
            return "input", []
    except Exception:  # noqa: BLE001
        pass
    return "none", []


class _Base:
    @property
    def __class__(self):
        return type(self._n)

    def __getattr__(self, name):
        return getattr(object.__getattribute__(self, "_n"), name)

    def __setattr__(self, name, value):
        setattr(self._n, name, value)

    def __repr__(self):
        return repr(self._n)


def _guard(n, environment, after):
    """evaluate n; whatever happens, call after(result_or_None, outcome) exactly once"""
    r, o = None, "host"
    try:
        r = n.evaluate(environment)
        o = _outcome(r)
        return r
    except CklRuntimeError:
        o = "err"
        raise
    finally:
        after(r, o)


class _Sub(_Base):
    """a child of a construct: condition, branch, loop source, loop body, function body"""
    def __init__(self, n, owner, kind, idx):
        object.__setattr__(self, "_n", n)
        object.__setattr__(self, "_o", owner)
        object.__setattr__(self, "_k", kind)
        object.__setattr__(self, "_i", idx)

    def evaluate(self, environment):
        n = object.__getattribute__(self, "_n")
        if not ENABLED[0]:
            return n.evaluate(environment)
        k = object.__getattribute__(self, "_k")
        i = object.__getattribute__(self, "_i")
        owner = object.__getattribute__(self, "_o")
        if k == "fbody":
            if not _CALLS or _CALLS[-1][1] is not self:
                return n.evaluate(environment)          # a body evaluated by something other than a recorded call
            b = _CALLS[-1][0]
            EVENTS.append({"e": "fbody", "b": b})

            def after(r, o):
                v = ""
                if o == "return":
                    v = _text(r.value)
                elif o == "val":
                    v = _text(r)
                EVENTS.append({"e": "fbodyend", "b": b, "o": o, "v": v})
            return _guard(n, environment, after)
        st = _ACTIVE.get(id(owner))
        if not st:
            return n.evaluate(environment)              # evaluated outside a recorded instance
        inst = st[-1]
        b = inst["b"]
        if k == "cond" or k == "wcond":
            def after(r, o):
                v = "other"
                if o == "val":
                    try:
                        if r.isBoolean():
                            v = "T" if r.isTrue() else "F"
                    except Exception:  # noqa: BLE001
                        pass
                ev = {"e": k, "b": b, "o": o, "v": v}
                if k == "cond":
                    ev["j"] = i
                EVENTS.append(ev)
            return _guard(n, environment, after)
        if k == "branch":
            EVENTS.append({"e": "branch", "b": b, "j": i})
            return _guard(n, environment, lambda r, o: EVENTS.append({"e": "branchend", "b": b, "j": i, "o": o}))
        if k == "coll":
            def after(r, o):
                kind, els = ("none", [])
                if o == "val":
                    kind, els = _snapshot(r)
                    inst["coll"] = r
                EVENTS.append({"e": "coll", "b": b, "o": o, "kind": kind, "what": owner.what or "",
                               "nids": len(owner.identifiers), "els": els})
            return _guard(n, environment, after)
        if k == "body":
            inst["count"] += 1
            c = inst["count"]
            vs = []
            for name in owner.identifiers:
                try:
                    x = environment.get(name)
                    vs.append({"t": _text(x), "items": _items(x)})
                except Exception:  # noqa: BLE001
                    vs.append({"t": "<unbound>", "items": []})
            live, ln = "", 0
            coll = inst.get("coll")
            try:
                if coll is not None and coll.isList():
                    ln = len(coll.value)
                    if c <= ln:
                        live = _text(coll.value[c - 1])
            except Exception:  # noqa: BLE001
                pass
            EVENTS.append({"e": "iter", "b": b, "i": c, "vars": vs, "live": live, "len": ln})
            return _guard(n, environment, lambda r, o: EVENTS.append({"e": "bodyend", "b": b, "i": c, "o": o}))
        if k == "wbody":
            inst["count"] += 1
            c = inst["count"]
            EVENTS.append({"e": "iter", "b": b, "i": c, "vars": [], "live": "", "len": 0})
            return _guard(n, environment, lambda r, o: EVENTS.append({"e": "bodyend", "b": b, "i": c, "o": o}))
        return n.evaluate(environment)


class _Construct(_Base):
    def __init__(self, n, c):
        object.__setattr__(self, "_n", n)
        object.__setattr__(self, "_c", c)

    def evaluate(self, environment):
        n = object.__getattribute__(self, "_n")
        if not ENABLED[0]:
            return n.evaluate(environment)
        c = object.__getattribute__(self, "_c")
        _COUNTER[0] += 1
        b = _COUNTER[0]
        inst = {"b": b, "count": 0, "coll": None}
        _ACTIVE.setdefault(id(n), []).append(inst)
        EVENTS.append({"e": "enter", "b": b, "c": c, "n": len(n.conditions) if c == "if" else 0})

        def after(r, o):
            _ACTIVE[id(n)].pop()
            ln = 0
            try:
                if inst["coll"] is not None and inst["coll"].isList():
                    ln = len(inst["coll"].value)
            except Exception:  # noqa: BLE001
                pass
            EVENTS.append({"e": "leave", "b": b, "o": o, "v": "", "len": ln})
        return _guard(n, environment, after)


def _is_node(x):
    return hasattr(x, "evaluate") and type(x).__module__ == "ckl.nodes"


def instrument(node, seen=None):
    seen = seen if seen is not None else set()
    if type(node) in (_Sub, _Construct) or id(node) in seen:
        return node
    seen.add(id(node))
    # children first (generic walk), then the construct's own slots
    for attr, val in list(vars(node).items()):
        if _is_node(val):
            setattr(node, attr, instrument(val, seen))
        elif isinstance(val, list):
            setattr(node, attr, _instr_list(val, seen))
        elif isinstance(val, dict):
            for k2, v2 in list(val.items()):
                if _is_node(v2):
                    val[k2] = instrument(v2, seen)
    t = type(node)
    if t is N.NodeIf:
        node.conditions = [_Sub(x, node, "cond", i + 1) for i, x in enumerate(node.conditions)]
        node.expressions = [_Sub(x, node, "branch", i + 1) for i, x in enumerate(node.expressions)]
        node.elseExpression = _Sub(node.elseExpression, node, "branch", len(node.conditions) + 1)
        return _Construct(node, "if")
    if t is N.NodeFor:
        node.expression = _Sub(node.expression, node, "coll", 0)
        node.block = _Sub(node.block, node, "body", 0)
        return _Construct(node, "for")
    if t is N.NodeWhile:
        node.expression = _Sub(node.expression, node, "wcond", 0)
        node.block = _Sub(node.block, node, "wbody", 0)
        return _Construct(node, "while")
    if t is N.NodeLambda:
        node.body = _Sub(node.body, node, "fbody", 0)
    return node


def _instr_list(lst, seen):
    out = []
    for x in lst:
        if _is_node(x):
            out.append(instrument(x, seen))
        elif isinstance(x, list):
            out.append(_instr_list(x, seen))
        else:
            out.append(x)
    return out


def install():
    if _ORIG:
        return
    _ORIG["parse"] = ckl.parser.parse
    _ORIG["execute"] = F.FuncLambda.execute

    def parse(lexer):
        return instrument(_ORIG["parse"](lexer))

    def execute(self, args, environment, pos):
        if not ENABLED[0] or type(self.body) is not _Sub:
            return _ORIG["execute"](self, args, environment, pos)
        _COUNTER[0] += 1
        b = _COUNTER[0]
        _CALLS.append((b, self.body))
        EVENTS.append({"e": "enter", "b": b, "c": "call", "n": 0})
        o, v = "host", ""
        try:
            r = _ORIG["execute"](self, args, environment, pos)
            o, v = _outcome(r), _text(r)
            return r
        except CklRuntimeError:
            o = "err"
            raise
        finally:
            _CALLS.pop()
            EVENTS.append({"e": "leave", "b": b, "o": o, "v": v, "len": 0})

    ckl.parser.parse = parse
    F.FuncLambda.execute = execute


def uninstall():
    if not _ORIG:
        return
    ckl.parser.parse = _ORIG["parse"]
    F.FuncLambda.execute = _ORIG["execute"]
    _ORIG.clear()
    ENABLED[0] = False
    _ACTIVE.clear()
    del _CALLS[:]


def record(progs, alarm=20):
    """progs: [(source, legacy?)] -> (events, metas)"""
    import signal
    from ckl.interpreter import Interpreter
    from ckl.values import StringOutput
    install()
    try:
        its = {}
        del EVENTS[:]
        metas = []

        def _alarm(signum, frame):
            raise TimeoutError()
        signal.signal(signal.SIGALRM, _alarm)
        for text, legacy in progs:
            if legacy not in its:
                ENABLED[0] = False                   # library loading is not recorded (its code is, when programs call it)
                it = its[legacy] = Interpreter(not legacy, legacy)
                it.setStandardOutput(StringOutput())
            it = its[legacy]
            it.environment = it.base_environment.newEnv()
            ENABLED[0] = True
            EVENTS.append({"e": "new"})
            signal.alarm(alarm)
            try:
                it.interpret(text, "flow")
            except BaseException:  # noqa: BLE001 - outcomes are judged by binding A / C13; here only the events count
                pass
            finally:
                signal.alarm(0)
                ENABLED[0] = False
                _ACTIVE.clear()
                del _CALLS[:]
            metas += [text] * (len(EVENTS) - len(metas))
        EVENTS.append({"e": "new"})
        metas.append("<end>")
        return list(EVENTS), metas
    finally:
        uninstall()
        del EVENTS[:]


def validate(run, events, metas, label, chunk=80000):
    chunks, cur = [], []
    for k, e in enumerate(events):
        if e["e"] == "new" and len(cur) >= chunk:
            chunks.append(cur)
            cur = []
        cur.append(k)
    if cur:
        chunks.append(cur)
    stats = {"bad": 0, "unchecked": 0}
    for ci, idx in enumerate(chunks):
        d = tempfile.mkdtemp(prefix="flow-")
        path = os.path.join(d, "trace.ndjson")
        try:
            with open(path, "w") as f:
                for k in idx:
                    f.write(json.dumps(events[k]) + "\n")
            res = run_tlc("Flow_Trace", workers=1, env={"TRACE_FILE": path}, timeout=3000)
        finally:
            try:
                os.remove(path)
                os.rmdir(d)
            except OSError:
                pass
        run.add_tlc(res, f"{label} [{ci + 1}/{len(chunks)}]")
        done = res.records("DONE")
        if not done or done[-1]["n"] != len(idx):
            raise MachineryError("Flow_Trace did not consume the whole trace")
        stats["unchecked"] += len(res.records("UNCHECKED"))
        for bd in res.records("BAD"):
            k = idx[bd["l"] - 1]
            src = metas[k]
            stats["bad"] += 1
            run.violation(f"flow-rule:{bd['rule']}:{src}",
                          f"control-flow: rule `{bd['rule']}` broken at event {json.dumps(events[k])[:300]} while running {src!r}",
                          {"kind": "flowtrace", "src": src})
    return stats
